"""Cumulative planner component (part of C02: the carry chain over every partitioning).

spec/CumOps.tla / Cumulative.tla: CumulativeBlockwise + TakeLast + CumulativeFinalize transcribed for one column; TLC checks
MeaningKept for every partitioning of every sequence over {NULL, 1, 2} (<= MaxParts partitions of <= MaxLen values) under the
carry rule of Series ("series": holds), of DataFrames ("frame": refuted - the mechanism of known finding F13) and the sound
per-column rule.  spec/CumTrace.tla: the same partitionings are run through the real Series / one-column DataFrame operators
and judged on what they return; differences from the transcription are reported only."""
from __future__ import annotations

import json
import random

from . import common, tlc

NULL = -1000001
OPS = {"sum": "cumsum", "max": "cummax", "min": "cummin"}


def _mk(i, parts=None):
    import numpy as np
    import pandas as pd
    vals = [np.nan if v == NULL else float(v) for v in parts[i]]
    return pd.DataFrame({"x": pd.Series(vals, dtype="float64")})


def real(job):
    import warnings
    warnings.filterwarnings("ignore")
    import dask
    import pandas as pd
    import dask_expr as dx
    parts = job["parts"]
    df = dx.from_map(_mk, list(range(len(parts))), parts=parts, meta=_mk(0, parts=[[1]]).iloc[:0])
    out = {"tid": job["tid"], "parts": parts, "container": job["container"], "op": job["op"]}
    try:
        x = df["x"] if job["container"] == "series" else df
        q = getattr(x, OPS[job["op"]])()
        low = q.optimize().expr
        got = dask.get(low.__dask_graph__(), low.__dask_keys__())
        enc = lambda v: NULL if pd.isna(v) else int(round(v))
        out["out"] = [[enc(v) for v in (p if job["container"] == "series" else p["x"])] for p in got]
        out["ok"] = True
    except Exception as ex:
        out["ok"] = False
        out["out"] = []
        out["msg"] = f"{type(ex).__name__}: {ex}"[:200]
    return out


def run_component(chk, tier):
    rnd = random.Random(chk.seed)
    d = {"Vals": "{1, 2}"}
    mp, ml = (3, 2)
    total = 0
    for rule, op, expect in [("series", "sum", None), ("series", "max", None), ("percol", "sum", None), ("percol", "max", None), ("frame", "sum", "MeaningKept"), ("frame", "max", "MeaningKept")]:
        cfg = tlc.cfg(spec="Spec", constants={"MaxParts": mp, "MaxLen": ml, "CarryRule": json.dumps(rule), "Op": json.dumps(op)}, defs=d,
                      invariants=["MeaningKept"] + (["Emit"] if expect is None and rule == "series" and op == "sum" else []))
        r = tlc.run("Cumulative", cfg, defs=tlc.mcdefs(d), workers=1 if rule == "series" and op == "sum" else 4, timeout=3000)
        chk.add_tlc(f"Cumulative rule={rule} op={op}", r)
        if r.violated != expect:
            raise tlc.MachineryError(f"Cumulative.tla rule={rule} op={op}: expected {expect}, TLC says {r.violated}")
        if rule == "series" and op == "sum":
            layouts = [json.loads(p[0])["parts"] for p in r.tagged("CUM")]
    chk.extra["cumulative_frame_rule_refuted_by"] = "MeaningKept"
    if tier == "quick":
        rnd.shuffle(layouts)
        layouts = layouts[:150]
    jobs = []
    for parts in layouts:
        for container in ("series", "frame"):
            for op in ("sum", "max"):
                jobs.append({"tid": len(jobs), "parts": [list(p) for p in parts], "container": container, "op": op})
    outs = common.pmap(real, jobs)
    for o in outs:
        if "__machinery__" in o:
            raise tlc.MachineryError(o["__machinery__"] + o.get("tb", ""))
    ndiv = 0
    for container, rule in (("series", "series"), ("frame", "frame")):
        for op in ("sum", "max"):
            sel = [o for o in outs if o["container"] == container and o["op"] == op]
            cfg = tlc.cfg(init="TInit", next="TNext", postcondition="AllConsumed", constants={"CarryRule": json.dumps(rule), "Op": json.dumps(op)})
            res, rejects, diverges, _ = tlc.validate("CumTrace", [{k: o[k] for k in ("tid", "parts", "out", "ok")} for o in sel], cfg_text=cfg, chunk=1500, parallel=4)
            for r in res:
                chk.add_tlc("CumTrace", r)
            ndiv += len(diverges)
            total += len(sel)
            for o in sel:
                if o["tid"] in rejects:
                    allnull = any(len(p) and all(v == NULL for v in p) for p in o["parts"])
                    chk.fail("Cum:" + rejects[o["tid"]], {"kind": "cum", "container": container, "op": op, "parts": o["parts"], "ops": ["src", "cum"] if container == "frame" else ["src", "col", "cum"],
                                                          "cum_input_allnull_partition": bool(allnull and container == "frame"), "errmsg": o.get("msg", "")}, {"out": o["out"]})
    chk.extra["cumulative_layouts_validated"] = total
    chk.extra["cumulative_outputs_diverging_from_transcription"] = ndiv
    return total

"""Abstraction of real dask-expr layers (dict key -> task) into the plan algebra of spec/PlanSem.tla,
and index-dtype profiles (abstract small ints <-> concrete index labels)."""
from __future__ import annotations

from operator import getitem

import numpy as np
import pandas as pd
from dask.dataframe import methods
from dask.dataframe.core import _concat, split_evenly


class Unabstractable(Exception):
    pass


# ------------------------------------------------------------------ index profiles
class Profile:
    def __init__(self, name):
        self.name = name

    def enc(self, v):
        n = self.name
        if n == "int":
            return int(v)
        if n == "float":
            return float(v) + 0.0
        if n == "str":
            return "k%03d" % v
        if n == "datetime":
            return pd.Timestamp("2000-01-01") + pd.Timedelta(days=int(v))
        raise ValueError(n)

    def dec(self, x):
        n = self.name
        if n == "int":
            return int(x)
        if n == "float":
            assert float(x) == int(round(float(x)))
            return int(round(float(x)))
        if n == "str":
            return int(x[1:])
        if n == "datetime":
            return int((pd.Timestamp(x) - pd.Timestamp("2000-01-01")) // pd.Timedelta(days=1))
        raise ValueError(n)

    def index(self, vals, name=None):
        n = self.name
        if n == "int":
            return pd.Index(np.array(list(vals), dtype="int64"), name=name)
        if n == "float":
            return pd.Index(np.array(list(vals), dtype="float64"), name=name)
        if n == "str":
            return pd.Index([self.enc(v) for v in vals], dtype=object, name=name)
        if n == "datetime":
            return pd.DatetimeIndex([self.enc(v) for v in vals], name=name)
        raise ValueError(n)


class RankProfile:
    """order-preserving re-encoding: abstract value = rank of the concrete label among `values` (sorted, distinct).
    PlanSem only compares labels, so ranks are a faithful abstraction of arbitrary (fractional, datetime) labels."""

    def __init__(self, values, base):
        self.values = list(values)
        self.rank = {v: i for i, v in enumerate(self.values)}
        self.base = base
        self.name = base.name + "/rank"

    def enc(self, r):
        return self.values[r]

    def dec(self, x):
        return self.rank[x]

    def index(self, ranks, name=None):
        vals = [self.values[r] for r in ranks]
        n = self.base.name
        if n == "int":
            return pd.Index(np.array(vals, dtype="int64"), name=name)
        if n == "float":
            return pd.Index(np.array(vals, dtype="float64"), name=name)
        if n == "datetime":
            return pd.DatetimeIndex(vals, name=name)
        return pd.Index(vals, dtype=object, name=name)


PROFILES = ["int", "float", "str", "datetime"]


# ------------------------------------------------------------------ layer abstraction
def _is_key(x):
    return isinstance(x, tuple) and len(x) >= 2 and isinstance(x[0], str) and all(isinstance(i, (int, np.integer)) for i in x[1:])


def abstract_layer(layer, in_name, out_name, dec=int, aux=None):
    """layer: {(name, i): task}.  Keys of the input frame -> 'i<n>', output keys -> 'o<n>', every other key
    name gets a prefix from `aux` (list of letters) in order of first appearance, sorted by (name, i).
    Returns plan dict {key: task record}."""
    aux = list(aux or ["s", "m", "n", "q", "r"])
    prefix = {in_name: "i", out_name: "o"}

    def kname(k):
        if not _is_key(k):
            raise Unabstractable(f"not a key: {k!r}")
        nm = k[0]
        if nm not in prefix:
            if not aux:
                raise Unabstractable("too many key families")
            prefix[nm] = aux.pop(0)
        return prefix[nm] + "".join(str(int(i)) if n == 0 else "_" + str(int(i)) for n, i in enumerate(k[1:]))

    # deterministic prefix assignment: walk keys in insertion order (the planner's own order)
    plan = {}
    for k in layer:
        if k[0] not in prefix and k[0] != out_name:
            kname(k)
    for k, t in layer.items():
        plan[kname(k)] = abstract_task(t, kname, dec)
    return plan


def abstract_task(t, kname, dec=int):
    if _is_key(t):
        return {"op": "alias", "src": kname(t)}
    if isinstance(t, tuple) and t and callable(t[0]):
        f = t[0]
        if f is methods.boundary_slice:
            _, src, lo, hi, rc = t
            return {"op": "slice", "src": kname(src), "lo": dec(lo), "hi": dec(hi), "rc": bool(rc)}
        if f is methods.concat or f is _concat:
            srcs = t[1]
            if not isinstance(srcs, list):
                raise Unabstractable("concat of non-list")
            return {"op": "concat", "srcs": [kname(s) for s in srcs]}
        if f is split_evenly:
            return {"op": "split", "src": kname(t[1]), "n": int(t[2])}
        if f is getitem:
            return {"op": "getitem", "src": kname(t[1]), "i": int(t[2])}
        if f is methods.head or getattr(f, "__name__", "") == "safe_head":
            return {"op": "head", "src": kname(t[1]), "n": int(t[2])}
        if f is methods.tail:
            return {"op": "tail", "src": kname(t[1]), "n": int(t[2])}
    raise Unabstractable(f"task {t!r:.200}")

"""C17 - materialization boundaries are transparent.

spec/Cut.tla (design-level model of cut + continue), spec/CutTrace.tla (conformance). TLC-generated programs
(QueryGen) are cut at every intermediate collection with persist(), to_delayed()/from_delayed() (with meta+divisions,
bare, with prefix=) and to_legacy_dataframe()/from_legacy_dataframe(); the remaining operators run on the re-imported
collection (plus partition selections on the imported node); result, declared schema, divisions and the task graph of
the cut plan are validated against the uncut query.
"""
from __future__ import annotations

import json
import random

from . import common, rel, tlc, walk

TIERS = {
    "quick": dict(sample=120, sim_num=60, sim_depth=4),
    "thorough": dict(sample=1500, sim_num=180, sim_depth=4),
}
CUT_KINDS = ["persist", "delayed", "delayed_bare", "delayed_prefix", "delayed_noopt", "legacy", "optimize_legacy"]


def build_over(q, cut_node, coll, env):
    """build q, but the subtree `cut_node` (by identity) is replaced by the collection `coll`"""
    if q is cut_node:
        return coll
    if q["op"] == "src":
        return env[q["t"]]
    sub = dict(q)
    child = build_over(q["c"][0], cut_node, coll, env)
    return rel.build({**q, "c": [{"op": "src", "t": "__cut__"}]}, {**env, "__cut__": child}, "dask")


def do_cut(h, kind):
    import dask_expr as dx
    if kind == "persist":
        return h.persist(scheduler="sync")
    if kind == "legacy":
        return dx.from_legacy_dataframe(h.to_legacy_dataframe())
    if kind == "optimize_legacy":
        return dx.from_legacy_dataframe(h.optimize().to_legacy_dataframe())
    if kind == "delayed_noopt":        # the non-default to_delayed(optimize_graph=False): same partitions, unoptimized graph
        return dx.from_delayed(h.to_delayed(optimize_graph=False), meta=h._meta)
    ds = h.to_delayed()
    if kind == "delayed":
        kw = {"meta": h._meta}
        if h.known_divisions and len(ds) == h.npartitions:
            kw["divisions"] = h.divisions
        elif h.known_divisions:
            # to_delayed() hands out the partitions of the OPTIMIZED collection (one object per partition of h.optimize()): the
            # divisions that describe these objects are the optimized collection's
            ho = h.optimize()
            if ho.known_divisions and len(ds) == ho.npartitions:
                kw["divisions"] = ho.divisions
        return dx.from_delayed(ds, **kw)
    if kind == "delayed_bare":
        return dx.from_delayed(ds)
    if kind == "delayed_prefix":
        return dx.from_delayed(ds, meta=h._meta, prefix="stage1")
    raise ValueError(kind)


def nodes_of(q):
    out = []
    while "c" in q:
        q = q["c"][0]
        out.append(q)
    return out          # proper sub-trees, outermost first (the source is last)


def replay(case):
    q, sc = case["q"], case["sc"]
    tabs = rel.make_tables(case["dseed"], wide=bool(case.get("parquet")))
    env = rel.dask_sources(tabs, {"T1": ("from_pandas", case["np1"]), "T2": ("from_pandas", case["np2"])})
    scratch = None
    if case.get("parquet"):
        # T1 read from a multi-file parquet dataset that carries columns the query never uses: the reader projects and
        # fuses several files into one task during optimization
        import os
        import tempfile
        import dask_expr as dx
        scratch = tempfile.mkdtemp(prefix="verif_c17.")
        t1 = tabs["T1"]
        n = len(t1)
        for i in range(4):
            t1.iloc[i * n // 4:(i + 1) * n // 4].to_parquet(os.path.join(scratch, f"part.{i}.parquet"))
        env["T1"] = dx.read_parquet(scratch)[["a", "b", "k"]]
    try:
        return _replay(case, q, sc, env)
    finally:
        if scratch:
            import shutil
            shutil.rmtree(scratch, ignore_errors=True)


def _replay(case, q, sc, env):
    try:
        whole = rel.build(q, env, "dask")
    except Exception as ex:
        return {"unbuildable": f"{type(ex).__name__}: {ex}"[:150]}
    uncut = rel.observe(lambda: rel.run_compute(whole))
    # the divisions the uncut query RUNS with (its optimized plan) next to the ones it declares before optimization: they differ when
    # the optimizer moves a row filter below a set_index / sort whose boundaries are quantiles of its input
    try:
        drun = whole.optimize().divisions
        krun = drun[0] is not None and not any(isinstance(d, str) for d in drun)
    except Exception:
        drun, krun = (), False
    div_run = dict(div_known_uncut_run=bool(krun), div_uncut_run=[walk._enc_label(d) for d in drun] if krun else [])
    lines = []
    subs = nodes_of(q)
    for depth, node in enumerate(subs):
        try:
            h = rel.build(node, env, "dask")
        except Exception:
            continue
        if getattr(h, "ndim", 0) == 0 or not hasattr(h, "to_delayed"):
            continue            # scalars are cut by persist only
        for kind in case["kinds"]:
            ln = {"cutdepth": depth, "cutkind": kind, "cut_failed": False, "msg": "", "has_graph": False, "graph": [], "outs": [], "refusal_ok": False, "div_sample_may_differ": False, **div_run}
            try:
                imp = do_cut(h, kind)
                # merge_asof refuses inputs without known divisions ("input must be sorted!"): a cut that (documentedly) loses them makes the rest refuse
                ln["refusal_ok"] = bool("mergeasof" in rel.ops_of(q)[len(rel.ops_of(node)):] and not imp.known_divisions)
                # the cut collection holds a set_index / sort whose divisions are QUANTILES of its input, and the rest of the program
                # filters rows: uncut, the optimizer pushes that filter below the sort, which is then planned on other rows
                ln["div_sample_may_differ"] = bool(any(o in ("setindex", "sort") for o in rel.ops_of(node)) and any(o in ("filter", "dropna") for o in rel.ops_of(q)[len(rel.ops_of(node)):]))
                cutq = build_over(q, node, imp, env)
                res = rel.observe(lambda: rel.run_compute(cutq))
                ln["schema_cut"] = walk.schema_of(cutq._meta)
                ln["schema_uncut"] = walk.schema_of(whole._meta)
                du, dc = whole.divisions, cutq.divisions
                ku = du[0] is not None and not any(isinstance(d, str) for d in du)
                kc = dc[0] is not None and not any(isinstance(d, str) for d in dc)
                ln.update(div_known_uncut=bool(ku), div_known_cut=bool(kc),
                          div_uncut=[walk._enc_label(d) for d in du] if ku else [], div_cut=[walk._enc_label(d) for d in dc] if kc else [],
                          # from_delayed without divisions=, and the persisted / legacy image of an OPTIMIZED plan, may lose divisions
                          div_loss_documented=kind in ("delayed_bare", "delayed_prefix", "delayed_noopt") or not (h.known_divisions))
                ln["cut"] = res
                if not res["ok"]:
                    ln["msg"] = "compute of the cut query: " + res.get("err", "") + ": " + res.get("msg", "")[:150]
                try:
                    low = cutq.optimize().expr
                    g, outs, _ = walk.graph_facts(low)
                    if len(g) < 400:
                        ln.update(has_graph=True, graph=g, outs=outs)
                except Exception as ex:
                    ln["msg"] = f"graph: {type(ex).__name__}: {ex}"[:150]
            except Exception as ex:
                ln.update(cut_failed=True, msg=f"{type(ex).__name__}: {ex}"[:200], cut={"ok": False, "err": type(ex).__name__},
                          schema_cut={}, schema_uncut={}, div_known_uncut=False, div_known_cut=False, div_uncut=[], div_cut=[], div_loss_documented=True)
            # partition selections on the imported node itself (absorbed by FromDelayed / kept above FromGraph)
            lines.append(ln)
        # selections directly on the import: partitions[i] of the cut collection == partitions[i] of the head
        # the head holds a sort whose boundaries are quantiles of its input, followed by a row filter: the materialized head is the
        # OPTIMIZED plan (filter pushed below the sort, boundaries of the filtered rows), h.partitions[i] keeps the filter above the
        # sort - partition i of the two holds other rows of the same collection
        hops = rel.ops_of(node)
        if any(o in ("setindex", "sort") and any(f in hops[j + 1:] for f in ("filter", "dropna")) for j, o in enumerate(hops)):
            continue
        for kind in case["kinds"][:3]:
            try:
                imp = do_cut(h, kind)
                if imp.npartitions < 2 or imp.npartitions != h.npartitions:
                    continue        # the cut materialised a plan whose multi-file read was fused into fewer partitions (see F46)
                import dask_expr as dx
                a = dx.concat([imp.partitions[0], imp.partitions[imp.npartitions - 1]])
                b = dx.concat([h.partitions[0], h.partitions[h.npartitions - 1]])
                ra, rb = rel.observe(lambda: rel.run_compute(a)), rel.observe(lambda: rel.run_compute(b))
                lines.append({"cutdepth": depth, "cutkind": kind + "+select", "cut_failed": False, "msg": "", "has_graph": False, "graph": [], "outs": [], "refusal_ok": False, "div_sample_may_differ": False,
                              "select": True, "head": node, "uncut_override": rb, "cut": ra, "schema_cut": walk.schema_of(a._meta), "schema_uncut": walk.schema_of(b._meta),
                              "div_known_uncut": False, "div_known_cut": False, "div_uncut": [], "div_cut": [], "div_loss_documented": True, "div_known_uncut_run": False, "div_uncut_run": []})
            except Exception as ex:
                lines.append({"cutdepth": depth, "cutkind": kind + "+select", "cut_failed": True, "msg": f"{type(ex).__name__}: {ex}"[:200], "has_graph": False, "graph": [], "outs": [], "refusal_ok": False, "div_sample_may_differ": False,
                              "cut": {"ok": False, "err": type(ex).__name__}, "schema_cut": {}, "schema_uncut": {}, "div_known_uncut": False, "div_known_cut": False,
                              "div_uncut": [], "div_cut": [], "div_loss_documented": True, "div_known_uncut_run": False, "div_uncut_run": []})
    # one common scale for all results of this program
    results = [uncut] + [ln["cut"] for ln in lines] + [ln["uncut_override"] for ln in lines if "uncut_override" in ln]
    rel.finalize(results)
    strip = lambda r: {k: v for k, v in r.items() if k in ("ok", "err", "t")}
    out = []
    for ln in lines:
        u = ln.pop("uncut_override", uncut)
        sel = ln["cutkind"].endswith("+select")
        rec = {"select": False, "head": {"op": "src", "t": "T1"}}
        rec.update(ln)
        rec.update(uncut=strip(u), cut=strip(ln["cut"]), ord=bool(sc["ord"]), idx=bool(sc["idx"]))
        out.append(rec)
    return {"lines": out}


def run(tier="quick", seed=0, replay_path=None):
    chk = common.Check("C17", tier, seed)
    t = TIERS[tier]
    rnd = random.Random(seed)
    for cov in ("TRUE", "FALSE"):
        cfg = tlc.cfg(spec="Spec", constants={"NP": 3, "MaxChain": 3, "NameCoversSelection": cov}, invariants=["SameResult", "DivisionsKeptOrDocumented", "NamesDistinct"])
        r = tlc.run("Cut", cfg)
        chk.add_tlc(f"Cut design model NameCoversSelection={cov}", r)
        if cov == "TRUE" and r.violated:
            raise tlc.MachineryError("Cut model violated: " + str(r.violated))
        if cov == "FALSE":
            chk.extra["model_without_selection_in_name_violates"] = r.violated
    if replay_path:
        with open(replay_path) as f:
            c = json.load(f)["case"]
        cases = [{k: c[k] for k in ("q", "sc", "dseed", "np1", "np2")}]
        cases[0]["kinds"] = CUT_KINDS
        cases[0]["parquet"] = c.get("parquet", False)
    else:
        qs = rel.gen_queries("general", 2, seed=seed, sample=t["sample"], sim_num=t["sim_num"], sim_depth=t["sim_depth"], chk=chk)
        qs = [c for c in qs if c["depth"] >= 2]
        cases = [{"q": c["q"], "sc": c["sc"], "dseed": rnd.randrange(5), "np1": rnd.choice([2, 3]), "np2": rnd.choice([1, 2]), "kinds": CUT_KINDS} for c in qs]
        cases += [dict(c, parquet=True) for c in cases[: (40 if tier == "quick" else 400)]]
    for i, c in enumerate(cases):
        c["cid"] = i
    common.assert_repo()
    raw = common.pmap(replay, cases)
    lines, bytid = [], {}
    for c, r in zip(cases, raw):
        if "__machinery__" in r:
            chk.machinery.append(r["__machinery__"] + " :: " + json.dumps(c["q"])[:150])
            continue
        if "unbuildable" in r:
            continue
        for ln in r["lines"]:
            ln["tid"] = len(lines)
            bytid[ln["tid"]] = c
            lines.append(ln)
    if len(chk.machinery) > 0.03 * len(cases):
        raise tlc.MachineryError(f"too many replay failures: {chk.machinery[:3]}")
    chk.evaluations = len(lines)
    slim = [{k: v for k, v in ln.items() if k not in ("msg", "cutdepth", "cutkind")} for ln in lines]
    cfg = tlc.cfg(init="Init", next="Next", postcondition="AllConsumed")
    results, rejects, _, _ = tlc.validate("CutTrace", slim, cfg_text=cfg, chunk=150, parallel=10)
    for r in results:
        chk.add_tlc("CutTrace", r)
    chk.traces = len(lines)
    for ln in lines:
        c = bytid[ln["tid"]]
        if ln["uncut"]["ok"]:
            chk.note_nontrivial(common.case_hash([c["q"], ln["cutdepth"], ln["cutkind"]]))
        if ln["tid"] in rejects:
            flags = {}
            if "cum" in rel.ops_of(c["q"]):
                tabs = rel.make_tables(c["dseed"])
                if not c.get("parquet"):
                    layouts = [("from_pandas", c["np1"])]
                else:       # the files of the dataset, and the pairs of files the projected reader fuses (F46)
                    n = len(tabs["T1"])
                    layouts = [("cuts", [i * n // 4 for i in (1, 2, 3)], False), ("cuts", [2 * n // 4], False)]
                flags["cum_input_allnull_partition"] = any(rel.cum_input_allnull_partition(c["q"], rel.dask_sources(tabs, {"T1": lay, "T2": ("from_pandas", c["np2"])})) for lay in layouts)
            chk.fail(rejects[ln["tid"]], {**flags, "q": c["q"], "sc": c["sc"], "dseed": c["dseed"], "np1": c["np1"], "np2": c["np2"], "ops": rel.ops_of(c["q"]),
                                          "cutdepth": ln["cutdepth"], "cutkind": ln["cutkind"], "errmsg": ln["msg"], "parquet": bool(c.get("parquet")),
                                          "cut_ops": rel.ops_of(nodes_of(c["q"])[ln["cutdepth"]]) if ln["cutdepth"] < len(nodes_of(c["q"])) else []},
                     {"msg": ln["msg"], "schema_cut": ln["schema_cut"], "schema_uncut": ln["schema_uncut"], "div_cut": ln["div_cut"], "div_uncut": ln["div_uncut"]})
    chk.rule = ("programs = TLC-generated queries (QueryGen general) with >= 2 operators; every proper sub-collection (frame/series/index) is cut with " + ", ".join(CUT_KINDS) +
                "; the rest of the program continues on the re-imported collection; additionally the first and last partition are selected on the imported node. "
                "non-trivial = a (program, cut point, cut kind) whose uncut query computed")
    for ln in lines[4:2000:700]:
        chk.sample({"q": bytid[ln["tid"]]["q"], "cutdepth": ln["cutdepth"], "cutkind": ln["cutkind"], "div_cut": ln["div_cut"], "ngraph": len(ln["graph"])})
    chk.assumptions += ["persist uses the synchronous scheduler; legacy conversion uses dask.dataframe's graph-backed collection of the installed dask",
                        "from_delayed without divisions= documents the loss of divisions"]
    return chk.finish()

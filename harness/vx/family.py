"""Shared driver of the optimizer properties C01 / C03 / C04 (one program space each, spec/QueryGen.tla focus).

C01 - optimization never changes what a query computes.

spec/QueryGen.tla (program space, order/index definedness), spec/Rel.tla (acceptance), spec/RelTrace.tla (conformance).
reference = the query lowered without optimization; observations = every optimizer stage / fuse on-off / a second
partition layout with unknown divisions and an empty partition.
"""
from __future__ import annotations

import json
import random

from . import common, rel, tlc

TIERS = {
    "quick": dict(depth=2, sample=500, sim_num=60, sim_depth=4, stages=["simplified-logical", "simplified-physical", "fused"]),
    "thorough": dict(depth=2, sample=None, sim_num=200, sim_depth=4,
                     stages=["simplified-logical", "tuned-logical", "physical", "simplified-physical", "fused"]),
}


def replay(case):
    q, sc = case["q"], case["sc"]
    tabs = rel.make_tables(case["dseed"])
    results = []
    tr = {"tid": case["tid"], "kind": "query", "q": q, "sc": sc}
    # layout 1: from_pandas, known divisions
    env = rel.cached_sources(case["dseed"], tabs, {"T1": ("from_pandas", case["np1"]), "T2": ("from_pandas", case["np2"])})
    try:
        coll = rel.build(q, env, "dask")
    except Exception as ex:
        # the query cannot even be built (meta computation failed): nothing to optimize
        return {"tid": case["tid"], "kind": "query", "q": q, "sc": sc, "unbuildable": f"{type(ex).__name__}: {ex}"[:200]}
    ref = rel.observe(lambda: rel.run_unoptimized(coll))
    results.append(ref)
    obs = []
    for st in case["stages"]:
        r = rel.observe(lambda st=st: rel.run_stage(coll, st))
        obs.append({"label": st, "res": r, "ord": True, "idx": True})
        results.append(r)
    r = rel.observe(lambda: rel.run_compute(coll))
    obs.append({"label": "compute", "res": r, "ord": True, "idx": True})
    results.append(r)
    # layout 2: arbitrary cuts incl. an empty partition, unknown divisions -> only the end result, compared as the
    # same query (row order compares only when the query defines it)
    n1 = len(tabs["T1"])
    # every other data seed reads T2 from a numpy array (columns k, b, c are NOT in sorted order; positional column selection)
    t2spec = ("from_array", 4) if case["dseed"] % 2 == 1 and "mergeasof" not in rel.ops_of(q) else ("from_pandas", 1)
    env2 = rel.dask_sources(tabs, {"T1": ("cuts", case["cuts1"], False), "T2": t2spec})
    try:
        coll2 = rel.build(q, env2, "dask")
        ref2 = rel.observe(lambda: rel.run_unoptimized(coll2))
        r2 = rel.observe(lambda: rel.run_compute(coll2))
    except Exception as ex:
        ref2 = {"ok": False, "err": type(ex).__name__}
        r2 = {"ok": False, "err": type(ex).__name__}
    results += [ref2, r2]
    if case.get("widen") and sc.get("closed"):
        # C04: the same program on inputs widened with columns the query never mentions
        wtabs = rel.make_tables(case["dseed"], wide=True)
        wenv = rel.cached_sources(("wide", case["dseed"]), wtabs, {"T1": ("from_pandas", case["np1"]), "T2": ("from_pandas", case["np2"])})
        try:
            wcoll = rel.build(q, wenv, "dask")
            rw = rel.observe(lambda: rel.run_compute(wcoll))
        except Exception as ex:
            rw = {"ok": False, "err": type(ex).__name__, "msg": str(ex)[:150]}
        obs.append({"label": "widened-compute", "res": rw, "ord": True, "idx": True})
        results.append(rw)
    truth_lines = []
    if case.get("truth"):
        # C03: every filter of the program: rows kept by the optimized filter == rows of the unfiltered frame whose
        # predicate is true (spec/Rel.tla Keep)
        node, depth = q, 0
        while "c" in node:
            if node["op"] == "filter":
                try:
                    u = rel.build(node["c"][0], env, "dask")
                    f = rel.build(node, env, "dask")
                    base = rel.observe(lambda: rel.run_unoptimized(u))
                    got = rel.observe(lambda: rel.run_compute(f))
                    got2 = rel.observe(lambda: rel.run_unoptimized(f[list(f.columns)[::-1]][list(f.columns)]))
                    got3 = rel.observe(lambda: rel.run_compute(f[list(f.columns)[::-1]][list(f.columns)]))
                    results += [base, got, got2, got3]
                    for lab, g in (("compute", got), ("unopt-with-parent", got2), ("compute-with-parent", got3)):
                        truth_lines.append({"kind": "truth", "u": node["c"][0], "pred": node["pred"], "mode": "numpy", "base": base, "got": g, "label": lab, "depth": depth})
                except Exception:
                    pass
            node = node["c"][0]
            depth += 1
    pdres = rel.observe(lambda: rel.build(q, tabs, "pandas"))
    results.append(pdres)
    tr["scale"] = rel.finalize(results)
    tr["ref"] = ref
    tr["obs"] = obs
    tr["ref2"] = ref2
    tr["obs2"] = [{"label": "layout2-compute", "res": r2, "ord": True, "idx": True}]
    tr["pandas"] = pdres
    tr["truth"] = [dict(tl, scale=tr["scale"]) for tl in truth_lines]
    tr["msgs"] = {o["label"]: (o["res"].get("err", "") + ": " + o["res"].get("msg", ""))[:160] for o in obs + tr["obs2"] if not o["res"]["ok"]}
    return tr


def split_traces(tr):
    """one RelTrace line per (reference, observations) pair"""
    a = {k: tr[k] for k in ("tid", "kind", "q", "sc", "scale", "ref", "obs")}
    a["refusals"] = False
    b = dict(a, tid=tr["tid"] + 1, ref=tr["ref2"], obs=tr["obs2"])
    out = [a, b]
    for i, tl in enumerate(tr.get("truth", [])[:17]):
        out.append(dict(tl, tid=tr["tid"] + 2 + i))
    return out


def strip(res):
    return {k: v for k, v in res.items() if k in ("ok", "err", "t")}


def run_family(pid, focus, tiers, tier="quick", seed=0, replay_path=None, widen=False, truth=False, keep=None):
    chk = common.Check(pid, tier, seed)
    t = tiers[tier]
    rnd = random.Random(seed)
    if replay_path:
        with open(replay_path) as f:
            c = json.load(f)["case"]
        cases = [c]
    else:
        qs = rel.gen_queries(focus, t["depth"], seed=seed, sample=t["sample"], sim_num=t["sim_num"], sim_depth=t["sim_depth"], chk=chk, keep=keep)
        cases = []
        for c in qs:
            cases.append({"q": c["q"], "sc": c["sc"], "dseed": rnd.randrange(5), "np1": rnd.choice([2, 3]), "np2": rnd.choice([1, 2]),
                          "cuts1": rnd.choice([[3, 3, 6], [0, 4], [2, 5, 9]]), "stages": t["stages"], "widen": widen, "truth": truth})
    for i, c in enumerate(cases):
        c["tid"] = 20 * i
    chk.evaluations = len(cases)
    chk.rule = (f"programs = reachable states of spec/QueryGen.tla (focus {focus}; widened inputs: {widen}; truth lines: {truth}): all of depth<=1, a seeded sample of depth 2, plus TLC -simulate behaviours "
                f"up to depth {t['sim_depth']}; each on seeded 9x7-row tables with NULLs/duplicate keys, layout A (from_pandas 2-3 partitions, known divisions: reference + "
                f"stages {t['stages']} + compute()) and layout B (from_map cuts with an empty partition, unknown divisions). non-trivial = at least one operator and the reference computed")
    common.assert_repo()
    raw = common.pmap(replay, cases)
    lines, unb, bytid = [], 0, {}
    for c, tr in zip(cases, raw):
        if "__machinery__" in tr:
            chk.machinery.append(tr["__machinery__"] + " :: " + json.dumps(c["q"])[:200])
            continue
        if "unbuildable" in tr:
            unb += 1
            continue
        for ln in split_traces(tr):
            if ln["kind"] == "truth":
                ln = dict(ln, base=strip(ln["base"]), got=strip(ln["got"]))
            else:
                ln = dict(ln, ref=strip(ln["ref"]), obs=[dict(o, res=strip(o["res"])) for o in ln["obs"]])
            lines.append(ln)
            bytid[ln["tid"]] = (c, tr)
        if tr["ref"]["ok"] and rel.ops_of(c["q"])[1:]:
            chk.note_nontrivial(common.case_hash(c["q"]))
    if len(chk.machinery) > 0.03 * len(cases):
        raise tlc.MachineryError(f"too many replay failures: {chk.machinery[:3]}")
    cfg = tlc.cfg(init="Init", next="Next", postcondition="AllConsumed")
    results, rejects, _, _ = tlc.validate("RelTrace", lines, cfg_text=cfg, chunk=250, parallel=10)
    for r in results:
        chk.add_tlc("RelTrace", r)
    chk.traces = len(lines)
    for tid, clause in [(tid, part) for tid, joined in rejects.items() for part in joined.split(";")]:
        c, tr = bytid[tid]
        pub = {k: c[k] for k in ("q", "sc", "dseed", "np1", "np2", "cuts1", "stages", "widen", "truth")}
        which = "A" if tid % 20 == 0 else "B" if tid % 20 == 1 else "truth"
        if which == "truth":
            tl = tr["truth"][tid % 20 - 2]
            clause = f"truth@{tl['depth']}:{tl['label']}:{clause}"
        extra = {}
        if clause == "Sorted":
            tabs = rel.make_tables(c["dseed"])
            envd = (rel.dask_sources(tabs, {"T1": ("from_pandas", c["np1"]), "T2": ("from_pandas", c["np2"])}) if which == "A"
                    else rel.dask_sources(tabs, {"T1": ("cuts", c["cuts1"], False), "T2": ("from_pandas", 1)}))
            extra["sort_input_nullkey_partition"] = rel.sort_input_nullkey_partition(c["q"], envd)
        if "cum" in rel.ops_of(c["q"]):
            tabs = rel.make_tables(c["dseed"])
            envd = (rel.dask_sources(tabs, {"T1": ("from_pandas", c["np1"]), "T2": ("from_pandas", c["np2"])}) if which != "B"
                    else rel.dask_sources(tabs, {"T1": ("cuts", c["cuts1"], False), "T2": ("from_pandas", 1)}))
            extra["cum_input_allnull_partition"] = rel.cum_input_allnull_partition(c["q"], envd)
        chk.fail(clause, dict(pub, ops=rel.ops_of(c["q"]), layout=which, groupby_fs=rel.groupby_fs(c["q"]), errmsg=(tr.get("msgs") or {}).get(clause.split(":")[0], ""), **extra), {"msgs": tr.get("msgs"), "layout": which})
    chk.extra["unbuildable_queries"] = unb
    chk.extra["reference_failed"] = sum(1 for ln in lines if ln["kind"] != "truth" and not ln["ref"]["ok"])
    chk.extra["truth_lines"] = sum(1 for ln in lines if ln["kind"] == "truth")
    chk.extra["widened_observations"] = sum(1 for ln in lines if ln["kind"] != "truth" and any(o["label"] == "widened-compute" for o in ln["obs"]))
    for ln in [l for l in lines if l["kind"] != "truth"][3:2000:700]:
        chk.sample({"q": ln["q"], "sc": ln["sc"], "ref_rows": ln["ref"].get("t", {}).get("rows", [])[:4], "labels": [o["label"] for o in ln["obs"]]})
    chk.assumptions += ["reference execution = expr.lower_completely() graph on the synchronous scheduler",
                        "row order / index labels compared only where spec/QueryGen.tla derives them as defined (sc.ord, sc.idx)",
                        "values are floats of small integers; non-integral results (mean, var) are compared after scaling by 1000 and rounding"]
    return chk.finish()

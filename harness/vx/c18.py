"""C18 - parquet reads with pushed-down work equal reading everything into memory.

spec/Parquet.tla: the case space (dataset layouts x reader configurations x predicate trees x user filters x projections
x partition selections x terminals) and the planner's design rules evaluated in every case (PushSound, DivTruthful,
FusedDivOK) - "as implemented at the pinned commit" and sound variants; spec/ParquetTrace.tla: conformance.
Each TLC-emitted case is realized with real files: written (pandas or dask writer, 1 or 2 row groups per file), read back,
queried through both readers; the optimized executions are validated by TLC against the unoptimized execution AND against
the expectation TLC computes from the written table; the plan's divisions against the labels each partition holds; and the
overwrite guard.
"""
from __future__ import annotations

import json
import os
import random
import shutil
import tempfile

from . import common, rel, tlc

TIERS = {
    "quick": dict(filter=260, layout=200, mixed=320, generic=0),
    "thorough": dict(filter=None, layout=None, mixed=6000, generic=0),
}
OPS = {"lt": "<", "le": "<=", "gt": ">", "ge": ">=", "eq": "==", "ne": "!="}
SOUND = {"PushNE": "TRUE", "NullAwareNE": "TRUE", "DivRule": '"disjoint"', "FusedLast": '"division"'}          # the rules of the repaired tree
PINNED = {"PushNE": "TRUE", "NullAwareNE": "FALSE", "DivRule": '"sorted-pairs"', "FusedLast": '"index"'}


# ------------------------------------------------------------------------------------------------ data
def file_frames(case):
    import numpy as np
    import pandas as pd
    rnd = random.Random(case["dseed"])

    def col(n, hi, pnull):
        return [np.nan if rnd.random() < pnull else float(rnd.randrange(0, hi)) for _ in range(n)]

    out = []
    for lo, hi in case["layout"]:
        n = hi - lo + 1
        f = pd.DataFrame({"a": col(n, 4, 0.25), "b": col(n, 4, 0.2), "k": col(n, 3, 0.1)}, index=pd.Index(list(range(lo, hi + 1)), name=case["iname"] or None, dtype="int64"))     # a list: pandas stores a RangeIndex as metadata only
        out.append(f)
    return out


def write(case, frames, path):
    import dask_expr as dx
    os.makedirs(path, exist_ok=True)
    kw = {"row_group_size": 2} if case["rg"] == 2 else {}
    if case["writer"] == "dask":
        coll = dx.from_map(_pick, list(range(len(frames))), frames=frames, meta=frames[0].iloc[:0])
        coll.to_parquet(path, write_index=True, **kw)
    else:
        for i, f in enumerate(frames):
            f.to_parquet(os.path.join(path, f"part.{i}.parquet"), engine="pyarrow", **kw)


def _pick(i, frames=None):
    return frames[i]


def read(case, path, with_filters=True):
    import dask_expr as dx
    rd = case["rd"]
    kw = {"filesystem": rd["fs"], "calculate_divisions": bool(rd["calcdiv"])}
    if rd["fs"] == "fsspec":
        kw["split_row_groups"] = True if rd["srg"] == "true" else "infer"
    if with_filters and case["uf"]:
        kw["filters"] = [[(a["col"] if a["col"] != "ix" else (case["iname"] or "__index_level_0__"), OPS[a["f"]], float(a["v"]) if a["col"] != "ix" else int(a["v"])) for a in conj] for conj in case["uf"]]
    return dx.read_parquet(path, **kw)


def pred_of(x, p):
    """the predicate written with comparison OPERATORS (df.a != 1): these are the expression classes the reader push-down matches
    (rel._pred uses the method spelling df.a.ne(1), which the planner treats as an opaque element-wise method)"""
    import operator
    k = p["p"]
    if k == "cmp":
        return getattr(operator, p["f"])(x[p["col"]], p["v"])
    if k == "cmpcol":
        return getattr(operator, p["f"])(x[p["col"]], x[p["col2"]])
    if k == "isna":
        return x[p["col"]].isna()
    if k == "isin":
        return x[p["col"]].isin(list(p["vals"]))
    if k == "and":
        return pred_of(x, p["a"]) & pred_of(x, p["b"])
    if k == "or":
        return pred_of(x, p["a"]) | pred_of(x, p["b"])
    if k == "not":
        return ~pred_of(x, p["a"])
    raise ValueError(k)


def build_query(case, df):
    q = df
    if case["pred"]["p"] != "none":
        q = q[pred_of(q, case["pred"])]
    if case["proj"]:
        q = q[list(case["proj"])]
    if case["parts"]:
        q = q.partitions[[p for p in case["parts"] if p < q.npartitions] or [0]]
    frame_q = q
    if case["term"] == "len":
        from dask_expr._collection import new_collection
        from dask_expr._reductions import Len
        q = new_collection(Len(q.expr))
    elif case["term"] == "col":
        q = q["a"]
    return frame_q, q


def plan_facts(frame_q):
    import dask
    from . import walk
    o = frame_q.optimize()
    divs = o.divisions
    known = divs[0] is not None
    low = o.expr
    parts = dask.get(low.__dask_graph__(), low.__dask_keys__())
    mm = [[int(p.index.min()), int(p.index.max())] if len(p) else [] for p in parts]
    fused = []
    for e in frame_q.optimize(fuse=False).expr.walk():       # before blockwise fusion hides the readers inside Fused groups
        if type(e).__name__ in ("FusedIO", "FusedParquetIO"):
            inner = e.operand("_expr")
            idiv = inner._divisions()
            iknown = idiv[0] is not None
            fused.append({"sel": [int(x) for x in inner._partitions], "buckets": [[int(x) for x in b] for b in e._fusion_buckets], "known": bool(iknown),
                          "inner_div": [int(d) for d in idiv] if iknown else [], "div": [int(d) for d in e._divisions()] if iknown else []})
    return {"ok": True, "known": bool(known), "np": int(o.npartitions), "div": [int(d) for d in divs] if known else [], "minmax": mm, "fused": fused}


def replay(case):
    import warnings
    warnings.filterwarnings("ignore")
    import pandas as pd
    scratch = tempfile.mkdtemp(prefix="verif_c18.")
    path = os.path.join(scratch, "ds")
    try:
        frames = file_frames(case)
        write(case, frames, path)
        written = rel.raw_table(pd.concat(frames))
        readback = rel.observe(lambda: rel.run_compute(read(case, path, with_filters=False)))
        out = {"tid": case["tid"], "case": {k: case[k] for k in ("layout", "rd", "pred", "uf", "proj", "parts", "term", "divs")}}
        try:
            df = read(case, path)
            frame_q, q = build_query(case, df)
        except Exception as ex:
            return {"tid": case["tid"], "unbuildable": f"{type(ex).__name__}: {ex}"[:300]}
        inmem = rel.observe(lambda: rel.run_unoptimized(q))
        obs = [{"label": "compute", "res": rel.observe(lambda: rel.run_compute(q))},
               {"label": "optimized-unfused", "res": rel.observe(lambda: rel._finish(None, q.optimize(fuse=False).expr.lower_completely()))}]
        try:
            plan = plan_facts(frame_q)
        except Exception as ex:
            plan = {"ok": False, "known": False, "np": 0, "div": [], "minmax": [], "fused": [], "err": f"{type(ex).__name__}: {ex}"[:200]}
            obs.append({"label": "plan", "res": {"ok": False, "err": type(ex).__name__, "msg": str(ex)[:200]}})
        guard = {"tried": False, "refused": False, "intact": False}
        if case.get("guard"):
            guard["tried"] = True
            try:
                frame_q.to_parquet(path, overwrite=True)
            except ValueError as ex:
                guard["refused"] = True
            except Exception as ex:
                guard["refused"] = True
                guard["other_error"] = f"{type(ex).__name__}: {ex}"[:200]
            again = rel.observe(lambda: rel.run_compute(read(case, path, with_filters=False)))
            guard["intact"] = bool(again.get("ok") and readback.get("ok") and again["raw"] == readback["raw"])
        results = [readback, inmem] + [o["res"] for o in obs]
        wres = {"ok": True, "raw": written}
        scale = rel.finalize(results + [wres])
        sorted_by_name = list(case["order"]) == list(range(1, len(case["layout"]) + 1))
        per_file = not (case["rd"]["fs"] == "fsspec" and case["rd"]["srg"] == "true" and case["rg"] == 2)       # else a partition is a row group
        must_know = bool(per_file and case["rd"]["calcdiv"] and case["divknown"] and (sorted_by_name or case["rd"]["fs"] == "arrow") and not case["uf"] and case["pred"]["p"] == "none"
                         and not case["parts"] and _strict(case["layout"]))
        out.update(written=wres["t"], scale=scale, readback=readback, inmem=inmem, obs=obs, plan={k: plan[k] for k in ("ok", "known", "np", "div", "minmax", "fused")}, guard={k: guard[k] for k in ("tried", "refused", "intact")},
                   must_know=must_know)
        out["messages"] = {o["label"]: o["res"].get("msg", "") for o in obs if not o["res"].get("ok")}
        out["plan_err"] = plan.get("err", "")
        return out
    finally:
        shutil.rmtree(scratch, ignore_errors=True)


def _strict(layout):
    s = sorted(map(tuple, layout))
    return all(s[i][1] < s[i + 1][0] for i in range(len(s) - 1))


# ------------------------------------------------------------------------------------------------ the check
def gen(chk, focus, consts, sample, seed, simulate=None):
    cfg = tlc.cfg(spec="Spec", constants=dict(consts, Focus=json.dumps(focus)), invariants=["PushSound", "DivTruthful", "FusedDivOK", "Emit"])
    if simulate:
        r = tlc.run("Parquet", cfg, workers=1, simulate=f"num={simulate}", depth=7, seed=seed, timeout=3000)
    else:
        r = tlc.run("Parquet", cfg, workers=1, timeout=3000)
    chk.add_tlc(f"Parquet focus={focus}" + (" simulate" if simulate else ""), r)
    if not r.ok:
        raise tlc.MachineryError(f"Parquet.tla (sound rules, focus {focus}) violates {r.violated}")
    cases = [json.loads(p[0]) for p in r.tagged("CASE")]
    uniq = {}
    for c in cases:
        uniq.setdefault(json.dumps(c, sort_keys=True), c)
    cases = list(uniq.values())
    rnd = random.Random(seed)
    rnd.shuffle(cases)
    return cases[:sample] if sample else cases


def controls(chk):
    """the rules of the pinned commit that are unsound must be refuted by TLC (negative controls / findings), one at a time"""
    for name, focus, sw, inv in [("three-valued != pushed", "filter", {"NullAwareNE": "FALSE"}, "PushSound"), ("DivRule sorted-pairs", "layout", {"DivRule": '"sorted-pairs"'}, "DivTruthful"),
                                 ("FusedLast index", "layout", {"FusedLast": '"index"'}, "FusedDivOK")]:
        cfg = tlc.cfg(spec="Spec", constants=dict(dict(SOUND, **sw), Focus=json.dumps(focus)), invariants=[inv])
        r = tlc.run("Parquet", cfg, workers=4, timeout=3000)
        chk.add_tlc(f"Parquet control {name}", r)
        chk.extra[f"pinned_rule_{name.replace(' ', '_')}_refuted_by"] = r.violated
        if r.violated != inv:
            raise tlc.MachineryError(f"Parquet.tla: control {name} was not refuted")


def run(tier="quick", seed=0, replay_path=None):
    chk = common.Check("C18", tier, seed)
    t = TIERS[tier]
    rnd = random.Random(seed)
    controls(chk)
    if replay_path:
        with open(replay_path) as f:
            cases = [json.load(f)["case"]["case_full"]]
    else:
        cases = gen(chk, "filter", SOUND, t["filter"], seed) + gen(chk, "layout", SOUND, t["layout"], seed) + gen(chk, "mixed", SOUND, t["mixed"], seed, simulate=t["mixed"])
    for i, c in enumerate(cases):
        c["tid"] = i
        c.setdefault("dseed", rnd.randrange(50))
        c.setdefault("guard", i % 5 == 0)
        if not c["iname"] and any(a["col"] == "ix" for conj in c["uf"] for a in conj):
            c["uf"] = []
    common.assert_repo()
    outs = common.pmap(replay, cases)
    lines, unbuildable = [], 0
    byid = {c["tid"]: c for c in cases}
    for o in outs:
        if "__machinery__" in o:
            raise tlc.MachineryError(o["__machinery__"] + "\n" + o.get("tb", ""))
        if "unbuildable" in o:
            unbuildable += 1
            chk.fail("Buildable", _describe(byid[o["tid"]], {"errmsg": o["unbuildable"]}), {})
            continue
        lines.append(o)
    chk.extra["unbuildable"] = unbuildable
    chk.evaluations = len(lines)
    slim = [{k: v for k, v in ln.items() if k not in ("messages", "plan_err")} for ln in lines]
    cfg = tlc.cfg(init="Init", next="Next", postcondition="AllConsumed")
    res, rejects, _, _ = tlc.validate("ParquetTrace", slim, cfg_text=cfg, chunk=150, parallel=10)
    for r in res:
        chk.add_tlc("ParquetTrace", r)
    chk.traces = len(lines)
    for ln in lines:
        c = byid[ln["tid"]]
        chk.note_nontrivial(common.case_hash([c[k] for k in ("layout", "rd", "pred", "uf", "proj", "parts", "term", "rg", "writer", "iname")]))
        if ln["tid"] in rejects:
            clause = rejects[ln["tid"]]
            chk.fail(clause, _describe(c, {"errmsg": json.dumps(ln["messages"])[:300] + ln["plan_err"]}), {"plan": ln["plan"], "inmem_rows": len(ln["inmem"].get("t", {}).get("rows", [])),
                                                                                                       "obs_rows": [len(o["res"].get("t", {}).get("rows", [])) for o in ln["obs"]]})
    chk.rule = ("cases = states of spec/Parquet.tla: focus filter (every predicate tree up to two connectives over two columns, non-pushable kinds included, both readers), focus layout "
                "(every sequence of 1..3 distinct file ranges incl. unsorted, touching and overlapping, all reader configurations, 1/2 row groups), focus mixed (-simulate over the full "
                "product incl. user filters, projections, partition selections, terminals, writers, index naming); seeded samples in the quick tier. non-trivial = distinct case")
    for ln in lines[3:2000:700]:
        chk.sample({"case": {k: byid[ln["tid"]][k] for k in ("layout", "rd", "pred", "uf", "proj", "parts", "term")}, "plan": ln["plan"]})
    chk.assumptions += ["row order is compared for the fsspec reader (file-name order); the arrow reader lists the directory in an unspecified order: results compare as bags",
                        "the expectation from the written table is not computed for cases with a partition selection (which file is partition i is the reader's choice); those are "
                        "compared with the unoptimized execution only",
                        "divisions must come back (Divisions.Requested / Value) only for sorted strictly disjoint files read with calculate_divisions=True and nothing filtered or selected"]
    return chk.finish()


def _describe(c, extra):
    d = {k: c[k] for k in ("layout", "rd", "pred", "uf", "proj", "parts", "term", "rg", "writer", "iname", "dseed", "guard")}
    d["fs"] = c["rd"]["fs"]
    d["calcdiv"] = c["rd"]["calcdiv"]
    d["pred_ops"] = sorted(_pred_ops(c["pred"]))
    d["disjoint"] = _strict(c["layout"])
    d["sorted_by_name"] = list(c["order"]) == list(range(1, len(c["layout"]) + 1))
    d["nfiles"] = len(c["layout"])
    d["case_full"] = c
    d.update(extra)
    return d


def _pred_ops(p):
    if p["p"] == "none":
        return set()
    if p["p"] in ("and", "or"):
        return {p["p"]} | _pred_ops(p["a"]) | _pred_ops(p["b"])
    if p["p"] == "not":
        return {"not"} | _pred_ops(p["a"])
    if p["p"] == "cmp":
        return {p["f"]}
    return {p["p"]}

"""CLI: python -m vx.check <ID> [--tier quick|thorough] [--replay path]

exit 0  the property held on everything explored (KNOWN-FINDING lines may be printed)
exit 1  at least one line 'VIOLATION property=<id> replay=<path>' was printed
exit 2  machinery failure (TLC crash, harness error) - never a statement about the implementation
"""
import argparse
import importlib
import os
import sys
import traceback
import warnings


def main():
    ap = argparse.ArgumentParser()
    ap.add_argument("pid")
    ap.add_argument("--tier", default=os.environ.get("VERIF_TIER", "quick"), choices=["quick", "thorough"])
    ap.add_argument("--replay", default=None)
    a = ap.parse_args()
    seed = int(os.environ.get("VERIF_SEED", "0") or 0)
    if a.replay:
        os.environ["VERIF_KEEP_REPLAYS"] = "1"
    warnings.filterwarnings("ignore")
    from . import tlc
    try:
        mod = importlib.import_module("vx." + a.pid.lower())
        rc = mod.run(tier=a.tier, seed=seed, replay_path=a.replay)
    except tlc.MachineryError as ex:
        print("MACHINERY-FAILURE:", str(ex)[:6000])
        sys.exit(2)
    except Exception:
        traceback.print_exc()
        print("MACHINERY-FAILURE: unexpected exception in the harness")
        sys.exit(2)
    sys.exit(rc)


if __name__ == "__main__":
    main()

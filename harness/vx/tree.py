"""Tree-reduction planner component (part of C10: split_every changes the shape of the tree only).

spec/TreeOps.tla / TreeReduce.tla: TreeReduce._layer transcribed; TLC checks InOrder (every chunk output reaches the
root exactly once, left to right), FanIn, Depth for every n <= MaxN and split_every in Splits.  spec/TreeTrace.tla:
the layers the real planner builds for the same (n, split_every) - for a sum, a groupby aggregation and an
order-sensitive reduction - are judged on their own structure; a difference from the transcription is reported only."""
from __future__ import annotations

from . import common, tlc

SPLITS = [0, 2, 3, 4, 8]


def real_layers(job):
    """-> list of {n, s, kind, layer}"""
    import numpy as np
    import pandas as pd
    import dask_expr as dx
    n = job["n"]
    pdf = pd.DataFrame({"a": np.arange(3 * n, dtype=float), "k": np.arange(3 * n) % 3})
    df = dx.from_pandas(pdf, npartitions=n, sort=False)
    if df.npartitions != n:
        return []
    out = []
    for s in job["splits"]:
        se = False if s == 0 else s
        for kind, q in (("sum", lambda: df.a.sum(split_every=se)), ("groupby", lambda: df.groupby("k").a.sum(split_every=se)), ("count-frame", lambda: df.count(split_every=se))):
            low = q().expr.lower_completely()
            for e in low.walk():
                if type(e).__name__ != "TreeReduce":
                    continue
                ins = {k: i for i, k in enumerate(e.frame.__dask_keys__())}

                def node(k):
                    if k in ins:
                        return {"j": 0, "i": ins[k]}
                    if len(k) == 2:
                        return {"j": -1, "i": 0}
                    return {"j": int(k[1]), "i": int(k[2])}

                layer = []
                for k, t in e._layer().items():
                    ops = t[1] if len(t) == 2 else t[2][0]
                    layer.append({"node": node(k), "ops": [node(o) for o in ops]})
                out.append({"n": len(ins), "s": s, "kind": kind, "layer": layer})
    return out


def run_component(chk, tier):
    maxn = 20 if tier == "quick" else 40
    d = {"Splits": "{" + ", ".join(map(str, SPLITS)) + "}"}
    cfg = tlc.cfg(spec="Spec", constants={"MaxN": maxn}, defs=d, invariants=["InOrder", "FanIn", "Depth", "NoCombineWhenOff"])
    r = tlc.run("TreeReduce", cfg, defs=tlc.mcdefs(d), timeout=3000)
    chk.add_tlc(f"TreeReduce n<={maxn}", r)
    if not r.ok:
        raise tlc.MachineryError("TreeReduce.tla violates " + str(r.violated))
    recs = [x for xs in common.pmap(real_layers, [{"n": n, "splits": SPLITS} for n in range(1, maxn + 1)], chunk=2) for x in (xs if isinstance(xs, list) else [xs])]
    for x in recs:
        if "__machinery__" in x:
            raise tlc.MachineryError(x["__machinery__"] + x.get("tb", ""))
    for i, x in enumerate(recs):
        x["tid"] = i
    cfg = tlc.cfg(init="TInit", next="TNext", postcondition="AllConsumed", constants={"MaxN": maxn})
    res, rejects, diverges, _ = tlc.validate("TreeTrace", [{k: x[k] for k in ("tid", "n", "s", "layer")} for x in recs], cfg_text=cfg, chunk=120, parallel=6)
    for r in res:
        chk.add_tlc("TreeTrace", r)
    chk.extra["tree_layers_validated"] = len(recs)
    chk.extra["tree_layers_diverging_from_transcription"] = len(diverges)
    for x in recs:
        if x["tid"] in rejects:
            chk.fail("Tree:" + rejects[x["tid"]], {"kind": "tree", "n": x["n"], "s": x["s"], "reduction": x["kind"], "ops": ["reduce"], "knobs": {"split_every": x["s"]}}, {"layer": x["layer"][:12]})
    return len(recs)

"""C12 - a shuffle is a permutation that co-locates equal keys consistently across frames.

spec/ShuffleOps.tla (planner transcriptions, plan meaning, routing postcondition), spec/Shuffle.tla (design-level
model over all (method, n_in, n_out, max_branch, selection)), spec/ShuffleTrace.tla (conformance).
"""
from __future__ import annotations

import json
import math
import operator
import random

from . import common, plans, tlc

TIERS = {
    "quick": dict(MaxIn=6, MaxGrow=1, Branches="{2, 3}", coloc=40),
    "thorough": dict(MaxIn=9, MaxGrow=2, Branches="{2, 3, 4}", coloc=400),
}


# ------------------------------------------------------------------------------ layer abstraction
def _digits(x):
    return list(x) if isinstance(x, tuple) else [int(x)]


def abstract_shuffle_layer(node, layer):
    from dask.dataframe.core import _concat
    from dask.dataframe.shuffle import barrier, collect, shuffle_group_2, shuffle_group_get
    import pandas as pd

    fin, fout = node.frame._name, node._name
    # stage of every "group-X" family from its shuffle_group task
    stage_of = {}
    for k, t in layer.items():
        if isinstance(t, tuple) and t and getattr(t[0], "__name__", "") == "_shuffle_group" and len(t) == 9:
            stage_of[k[0][len("group-"):]] = int(t[4])

    def kname(k):
        nm = k[0]
        if nm == fin and len(k) == 2:
            return f"i{int(k[1])}"
        if nm == fout and len(k) == 2:
            return f"o{int(k[1])}"
        if nm.startswith("group-"):
            st = stage_of[nm[len("group-"):]]
            if len(k) == 3 and k[2] == "empty":
                return f"e{st}_" + "_".join(map(str, _digits(k[1])))
            return f"g{st}_" + "_".join(map(str, _digits(k[1])))
        if nm.startswith("split-"):
            st = stage_of[nm[len("split-"):]]
            return f"p{st}_{int(k[1])}_" + "_".join(map(str, _digits(k[2])))
        if nm.startswith("stage-"):
            return f"t{int(nm.split('-')[1])}_{int(k[1])}"
        if nm.startswith("repartition-group-"):
            return f"r{int(k[1])}"
        if nm.startswith("shuffle-partition-"):
            return f"d{int(k[1])}"
        if nm.startswith("barrier-"):
            return "barrier"
        if nm.startswith("zpartd-"):
            return "partd"
        raise plans.Unabstractable(f"key {k!r}")

    plan = {}
    for k, t in layer.items():
        kn = kname(k)
        if kn == "partd":
            continue
        if isinstance(t, (pd.DataFrame, pd.Series)):
            plan[kn] = {"op": "empty"}
            continue
        f = t[0]
        fname = getattr(f, "__name__", "")
        if f is _concat:
            plan[kn] = {"op": "concat", "srcs": [kname(s) for s in t[1]]}
        elif f is operator.getitem:
            plan[kn] = {"op": "getitem", "src": kname(t[1]), "i": int(t[2])}
        elif fname == "_shuffle_group" and len(t) == 9:
            _, src, flt, col, stage, k_, nmod, ign, nfinal = t
            plan[kn] = {"op": "group", "src": kname(src), "stage": int(stage), "k": int(k_), "nmod": int(nmod),
                        "keep": [-1] if flt is None else [int(x) for x in flt]}
        elif fname == "_shuffle_group" and len(t) == 5:       # DiskShuffle._shuffle_group(df, col, _filter, p)
            plan[kn] = {"op": "diskput", "src": kname(t[1]), "keep": [int(x) for x in t[3]]}
        elif f is shuffle_group_2:
            plan[kn] = {"op": "group2", "src": kname(t[1])}
        elif f is shuffle_group_get:
            plan[kn] = {"op": "gget", "src": kname(t[1]), "i": int(t[2])}
        elif f is barrier:
            plan[kn] = {"op": "barrier", "srcs": [kname(s) for s in t[1]]}
        elif f is collect:
            plan[kn] = {"op": "collect", "part": int(t[2]), "src": kname(t[4])}
        else:
            raise plans.Unabstractable(f"task {t!r:.150}")
    return plan


# ------------------------------------------------------------------------------ replay (worker side)
_KEYCACHE = {}


def keys_for(nout):
    """for each target partition p, a float-castable integer key k with partitioning_index(k) % nout == p"""
    if nout not in _KEYCACHE:
        import numpy as np
        import pandas as pd
        from dask.dataframe.shuffle import partitioning_index
        cand = pd.DataFrame({"k": np.arange(0, 40 * nout + 50, dtype="float64")})
        pi = partitioning_index(cand, nout)
        m = {}
        for k, p in zip(cand["k"], pi):
            m.setdefault(int(p), int(k))
        _KEYCACHE[nout] = [m.get(p, 0) for p in range(nout)]
    return _KEYCACHE[nout]


class _Parts:
    def __init__(self, frames):
        self.frames = frames

    def __call__(self, i):
        return self.frames[i]


def replay_plan(case):
    import dask
    import dask_expr as dx
    import pandas as pd
    from dask_expr import _shuffle as S

    nin0, nout, mb, method = case["nin"], case["nout"], case["mb"], case["method"]
    keys = keys_for(nout)
    frames = []
    for i in range(nin0):
        ks, rids = [], []
        for p in range(nout):
            for cpy in (0, 1):
                ks.append(keys[p])
                rids.append(1000 * i + 2 * p + cpy)
        frames.append(pd.DataFrame({"k": pd.array(ks, dtype="int64"), "rid": pd.array(rids, dtype="int64")},
                                   index=pd.Index(range(100 * i, 100 * i + len(ks)), name="ix")))
    df = dx.from_map(_Parts(frames), list(range(nin0)), meta=frames[0].iloc[:0])
    kw = {"max_branch": mb} if method == "tasks" else {}
    s = df.shuffle("k", npartitions=nout, shuffle_method=method, ignore_index=bool(case.get("ignore_index", False)), **kw)
    if case["filtered"]:
        s = s.partitions[list(case["parts"])]
    tr = {"tid": case["tid"], "kind": "plan", "method": method, "nout": nout, "mb": mb, "parts": list(case["parts"]),
          "filtered": bool(case["filtered"]), "planner_crashed": False, "crashed": False, "err": "",
          "plan": {"o0": {"op": "empty"}}, "inputs": {}, "outs": [], "nin": nin0}
    opt = s.optimize(fuse=False).expr
    nodes = [e for e in opt.walk() if isinstance(e, S.SimpleShuffle)]
    if len(nodes) != 1:
        raise plans.Unabstractable(f"{len(nodes)} shuffle nodes in the optimized plan")
    node = nodes[0]
    tr["nin"] = int(node.frame.npartitions)
    tr["cls"] = type(node).__name__
    tr["node_parts"] = [int(p) for p in node._partitions]
    tr["node_filtered"] = bool(node._filtered)
    # the selection must have been pushed into the shuffle node (else the case degenerates; still valid)
    tr["parts"] = tr["node_parts"]
    tr["filtered"] = tr["node_filtered"]
    g = opt.__dask_graph__() if False else None
    try:
        layer = node._layer()
        tr["plan"] = abstract_shuffle_layer(node, layer)
    except plans.Unabstractable:
        raise
    except Exception as ex:
        tr["planner_crashed"] = True
        tr["err"] = f"{type(ex).__name__}: {ex}"[:200]
        return tr
    # inputs of the shuffle node: computed for real (includes the routing number column)
    fr = node.frame
    ins = dask.get(fr.__dask_graph__(), fr.__dask_keys__())
    tr["inputs"] = {f"i{i}": [[0, int(r), int(p)] for r, p in zip(x["rid"], x["_partitions"])] for i, x in enumerate(ins)}
    try:
        outs = dask.get(node.__dask_graph__(), node.__dask_keys__())
        tr["outs"] = [sorted(int(r) for r in x["rid"]) for x in outs]
    except Exception as ex:
        tr["crashed"] = True
        tr["err"] = f"{type(ex).__name__}: {ex}"[:200]
    return tr


COLOC_KINDS = ["int64_col", "float64_col", "int32_col", "cat_int_col", "int64_index_named", "float64_index_named",
               "int64_on_index", "float64_on_index", "uint8_col"]


def replay_coloc(case):
    """shuffle several frames holding the same key values under different dtypes / placements to the same partition
    count; log the partition number every key got in every frame"""
    import dask
    import dask_expr as dx
    import numpy as np
    import pandas as pd

    nout, nin, method = case["nout"], case["nin"], case["method"]
    vals = case["keys"]                       # small non-negative ints, 99 = NULL (float kinds only)
    frames = []
    for kind in case["kinds"]:
        v = [x for x in vals if x != 99 or kind.startswith("float")]
        rid = list(range(len(v)))
        arr = [np.nan if x == 99 else x for x in v]
        if kind.endswith("_col"):
            dt = kind[:-4]
            if dt == "cat_int":
                col = pd.Categorical(arr)
            else:
                col = pd.array(arr, dtype=dt)
            pdf = pd.DataFrame({"k": col, "rid": rid})
            d = dx.from_pandas(pdf, npartitions=nin, sort=False)
            s = d.shuffle("k", npartitions=nout, shuffle_method=method, max_branch=case.get("mb") or 32) if method == "tasks" else d.shuffle("k", npartitions=nout, shuffle_method=method)
            keyof = lambda x: x["k"]
        else:
            dt = kind.split("_")[0]
            pdf = pd.DataFrame({"rid": rid}, index=pd.Index(np.array(arr, dtype=dt), name="k"))
            d = dx.from_pandas(pdf, npartitions=nin, sort=False)
            kw = dict(npartitions=nout, shuffle_method=method)
            if method == "tasks":
                kw["max_branch"] = case.get("mb") or 32
            s = d.shuffle(on_index=True, **kw) if kind.endswith("on_index") else d.shuffle("k", **kw)
            keyof = lambda x: x.index
        parts = dask.get(s.optimize(fuse=False).__dask_graph__(), s.optimize(fuse=False).__dask_keys__())
        rows = []
        for pn, x in enumerate(parts):
            for kk, r in zip(keyof(x), x["rid"]):
                kk = 99 if pd.isna(kk) else int(kk)
                rows.append([kk, int(r), pn])
        frames.append({"kind": kind, "nrows": len(v), "rows": rows})
    return {"tid": case["tid"], "kind": "coloc", "nout": nout, "frames": frames, "kinds": case["kinds"]}


def replay(case):
    return replay_plan(case) if case["kind"] == "plan" else replay_coloc(case)


# ------------------------------------------------------------------------------ check (driver side)
def _stages(nin, mb):
    st = int(math.ceil(math.log(nin) / math.log(mb))) if nin > 1 else 1
    ns = int(math.ceil(nin ** (1 / st))) if st > 1 else nin
    return st, ns


def _pub(c, tr=None):
    out = {k: v for k, v in c.items() if k not in ("tid",)}
    if tr is not None and c["kind"] == "plan":
        nin = tr.get("nin", c["nin"])
        st, ns = _stages(nin, c["mb"])
        staged = c["method"] == "tasks" and not (len(tr["parts"]) <= c["mb"] or nin <= c["mb"])
        out.update(node_nin=nin, node_parts=tr["parts"], node_filtered=tr["filtered"], staged=staged, stages=st, nsplits=ns,
                   last_digits=[(p // ns ** (st - 1)) % ns for p in tr["parts"]])
    return out


def run(tier="quick", seed=0, replay_path=None):
    chk = common.Check("C12", tier, seed)
    t = TIERS[tier]
    rnd = random.Random(seed)
    if replay_path:
        with open(replay_path) as f:
            cases = [{k: v for k, v in json.load(f)["case"].items() if not k.startswith("node_") and k not in ("staged", "stages", "nsplits", "last_digits")}]
        design_fail = set()
    else:
        d = {"Branches": t["Branches"]}
        cfg = tlc.cfg(spec="Spec", constants={"MaxIn": t["MaxIn"], "MaxGrow": t["MaxGrow"]}, defs=d,
                      invariants=["TypeOK", "SameAsFunctional", "StagingSound", "Report"])
        res = tlc.run("Shuffle", cfg, defs=tlc.mcdefs(d), extra='ASSUME EmitCases("cases.ndjson")',
                      outfiles=["cases.ndjson"], coverage=(tier == "thorough"), timeout=3000)
        chk.add_tlc("Shuffle design model (all method/n_in/n_out/max_branch/selection)", res)
        if res.violated:
            raise tlc.MachineryError("design model invariant violated: " + str(res.violated) + res.stdout[-2000:])
        design_fail = {json.dumps(json.loads(cj), sort_keys=True) for _, cj in res.tagged("DESIGN")}
        chk.extra["design_level_failures"] = len(design_fail)
        cases = [dict(c, kind="plan", parts=list(c["parts"]), ignore_index=(i % 5 == 0)) for i, c in enumerate(res.outfiles["cases.ndjson"])]
        # Shuffle._lower shrinks the input first when n_out < n_in: a few shrinking requests as well
        for nin in range(2, t["MaxIn"] + 1):
            for nout in range(1, nin):
                for method in ("tasks", "disk"):
                    cases.append({"kind": "plan", "method": method, "nin": nin, "nout": nout, "mb": 2,
                                  "parts": list(range(nout)), "filtered": False})
        # co-location across frames whose keys differ in dtype / placement
        for i in range(t["coloc"]):
            nout = rnd.choice([2, 3, 4, 5, 7])
            kinds = rnd.sample(COLOC_KINDS, 3)
            keys = [rnd.randrange(0, 12) for _ in range(rnd.randrange(6, 20))] + [0, 1]
            if rnd.random() < 0.4:
                keys += [99, 99]
            cases.append({"kind": "coloc", "nout": nout, "nin": rnd.choice([1, 2, 3, 4]), "kinds": kinds, "keys": keys,
                          "method": rnd.choice(["tasks", "disk"]), "mb": rnd.choice([2, 3, 32])})
    for i, c in enumerate(cases):
        c["tid"] = i
    chk.evaluations = len(cases)
    chk.exhaustive = True
    chk.rule = ("plan cases = initial states of spec/Shuffle.tla (TLC-enumerated): every (method in tasks/disk, n_in <= %d, n_in <= n_out <= n_in+%d, "
                "max_branch in %s, selection in {all, singles, contiguous slices, reversed, reordered/repeated pair, strided}) on the universal dataset "
                "(2 rows per (input partition, routing number)); plus shrinking requests; coloc cases = seeded random key sets shuffled in 3 frames of different "
                "key dtype/placement. non-trivial = more than one input and output partition, or a filtered selection, or a coloc case"
                % (t["MaxIn"], t["MaxGrow"], t["Branches"]))
    common.assert_repo()
    traces = common.pmap(replay, cases)
    good = []
    for c, tr in zip(cases, traces):
        if "__machinery__" in tr:
            chk.machinery.append(tr["__machinery__"] + " :: " + json.dumps({k: v for k, v in c.items() if k != "keys"})[:200])
            continue
        good.append(tr)
        if c["kind"] == "coloc" or c["filtered"] or (c["nin"] > 1 and c["nout"] > 1):
            chk.note_nontrivial(common.case_hash({k: v for k, v in c.items() if k != "tid"}))
    if len(good) < 0.98 * len(cases):
        raise tlc.MachineryError(f"too many replay failures: {len(cases) - len(good)} of {len(cases)}: {chk.machinery[:3]}")
    cfg = tlc.cfg(init="Init", next="Next", postcondition="AllConsumed")
    results, rejects, diverges, _ = tlc.validate("ShuffleTrace", good, cfg_text=cfg, chunk=150, parallel=10)
    for r in results:
        chk.add_tlc("ShuffleTrace", r)
    chk.traces = len(good)
    bycase = {c["tid"]: c for c in cases}
    notcov = 0
    for tr in good:
        c = bycase[tr["tid"]]
        if tr["tid"] in rejects:
            cl = rejects[tr["tid"]]
            if cl == "NotCovering":
                notcov += 1
                continue
            chk.fail(cl, _pub(c, tr), {"err": tr.get("err"), "cls": tr.get("cls")})
    chk.extra["divergences_real_plan_vs_transcription"] = len(diverges)
    chk.extra["not_covering_inputs"] = notcov
    for tr in good[:3000:1100]:
        chk.sample({k: tr[k] for k in tr if k in ("kind", "method", "nin", "nout", "mb", "parts", "filtered", "cls", "kinds")} |
                   ({"plan_keys": sorted(tr["plan"])[:12]} if tr["kind"] == "plan" else {}))
    chk.assumptions += [
        "contracts of dask.dataframe.shuffle helpers (shuffle_group, shuffle_group_2, shuffle_group_get, partd collect) as written in spec/ShuffleOps.tla; bound by clause PlanBinding",
        "p2p shuffle not bound (no `distributed` in the sandbox)",
        "row order inside an output partition is not part of the property (bags compared)",
    ]
    return chk.finish()

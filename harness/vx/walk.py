"""Plan walk shared by C06 (partition structure), C07 (schema) and C09 (task graphs): for TLC-generated programs,
every node of the lowered / optimized / fused plan is materialised (one graph execution per plan computes the
partitions of all nodes) and its reports are logged next to what it computed; the layers of every node are logged
before dask merges them. spec/PlanWalkTrace.tla decides."""
from __future__ import annotations

import json
import random

from . import common, rel, tlc

NULL = -1000001
SCALE = 1000

TIERS = {
    "quick": dict(depth=2, sample=260, sim_num=60, sim_depth=4),
    "thorough": dict(depth=2, sample=2500, sim_num=180, sim_depth=4),
}


# ----------------------------------------------------------------------------------------- facts
def _enc_label(v):
    import pandas as pd
    n = rel._num(v)
    if n is None:
        return NULL
    x = int(round(float(n) * SCALE))
    return max(min(x, 2_000_000_000), -2_000_000_000)


def _dkind(dt):
    import pandas as pd
    k = getattr(dt, "kind", "O")
    if isinstance(dt, pd.CategoricalDtype):
        return "C"
    if k in "SUT" or str(dt) in ("string", "str") or "string" in str(dt):
        return "O"
    return k


def schema_of(obj):
    import pandas as pd
    if isinstance(obj, pd.DataFrame):
        return {"kind": "frame", "cols": [rel._label(c) for c in obj.columns], "name": "", "iname": rel._label(obj.index.name),
                "dkinds": [_dkind(d) for d in obj.dtypes]}
    if isinstance(obj, pd.Series):
        return {"kind": "series", "cols": [], "name": rel._label(obj.name), "iname": rel._label(obj.index.name), "dkinds": [_dkind(obj.dtype)]}
    if isinstance(obj, pd.Index):
        return {"kind": "index", "cols": [], "name": rel._label(obj.name), "iname": "", "dkinds": [_dkind(obj.dtype)]}
    return {"kind": "scalar", "cols": [], "name": "", "iname": "", "dkinds": []}


def part_facts(p):
    import pandas as pd
    if isinstance(p, (pd.DataFrame, pd.Series)):
        idx = p.index
    elif isinstance(p, pd.Index):
        idx = p
    else:
        return {"len": 1, "imin": NULL, "imax": NULL}
    try:
        nn = idx.dropna()
    except Exception:
        nn = idx
    if len(nn) == 0 or isinstance(idx, pd.MultiIndex):
        return {"len": int(len(p)), "imin": NULL, "imax": NULL}
    try:
        return {"len": int(len(p)), "imin": _enc_label(nn.min()), "imax": _enc_label(nn.max())}
    except Exception:
        return {"len": int(len(p)), "imin": NULL, "imax": NULL}


def _has_planner(obj, depth=0):
    from dask_expr._core import Expr
    from dask_expr._collection import FrameBase
    if isinstance(obj, (Expr, FrameBase)):
        return True
    if depth > 6:
        return False
    if isinstance(obj, (list, tuple, set, frozenset)):
        return any(_has_planner(x, depth + 1) for x in obj)
    if isinstance(obj, dict):
        return any(_has_planner(k, depth + 1) or _has_planner(v, depth + 1) for k, v in obj.items())
    return False


def graph_facts(low):
    """the layers of every node of the plan, before toolz.merge: entries [k, layer, tok, deps, planner]"""
    import dask
    from dask.base import tokenize
    from dask.core import keys_in_tasks
    entries_raw, allkeys = [], set()
    seen = set()
    stack = [low]
    layer_no = 0
    while stack:
        e = stack.pop()
        if e._name in seen:
            continue
        seen.add(e._name)
        layer = e._layer()
        layer_no += 1
        for k, t in layer.items():
            entries_raw.append((k, layer_no, t))
            allkeys.add(k)
        stack.extend(e.dependencies())
    ids = {}
    def kid(k):
        return ids.setdefault(k, len(ids))
    toks = {}
    out = []
    for k, ln, t in entries_raw:
        try:
            deps = keys_in_tasks(allkeys, [t])
            # references to keys that do not exist: any (str, int...) tuple that looks like a key of this plan's names
            names = {kk[0] if isinstance(kk, tuple) else kk for kk in allkeys}
            missing = _dangling(t, allkeys, names)
        except Exception:
            deps, missing = set(), []
        try:
            tk = tokenize(t)
        except Exception:
            tk = repr(t)[:200]
        out.append({"k": kid(k), "layer": ln, "tok": toks.setdefault(tk, len(toks)), "deps": sorted({kid(d) for d in deps} | {kid(("__missing__", repr(m))) for m in missing}),
                    "planner": _has_planner(t)})
    outs = [kid(k) for k in dask.core.flatten(low.__dask_keys__())]
    return out, outs, len(ids)


def _dangling(task, allkeys, names, depth=0):
    """key-shaped tuples (name, int...) whose name belongs to this plan but which no layer defines"""
    out = []
    if depth > 8:
        return out
    if isinstance(task, tuple) and len(task) >= 2 and isinstance(task[0], str) and all(isinstance(i, int) for i in task[1:]) \
            and (task[0] in names or any(n in task[0] for n in names if isinstance(n, str) and len(n) > 20)):
        # key-shaped: its name is (or embeds, like "split-<name>") the name of a key family of this plan
        if task not in allkeys:
            out.append(task)
        return out
    if isinstance(task, (tuple, list)):
        for x in task:
            out.extend(_dangling(x, allkeys, names, depth + 1))
    elif isinstance(task, dict) and depth < 3:
        for v in task.values():
            out.extend(_dangling(v, allkeys, names, depth + 1))
    return out


# nodes that are not collections in the sense of C06: per-partition intermediates of reductions whose values are not
# the rows of a frame partition (they inherit the input's divisions only as a partition count)
INTERMEDIATE = {"Chunk", "GroupByChunk", "Combine", "TreeReduce", "TakeLast", "GroupByCombine", "ShuffleReduce", "DecomposableGroupbyAggregation",
                "_SetPartitionsPreSetIndex", "CreateOverlappingPartitions", "AssignPartitioningIndex"}


def _is_intermediate(e, _memo=None):
    """an intermediate itself, or a partition-wise (Blockwise) node computed directly from one: it inherits the divisions its
    input reports (e.g. ToFrame over Unique(Chunk)), so only its partition count is judged"""
    from dask_expr._expr import Blockwise
    nm = type(e).__name__
    if nm in INTERMEDIATE:
        return True
    if nm == "Fused":
        return any(type(x).__name__ in INTERMEDIATE for x in e.exprs) or any(_is_intermediate(d) for d in e.dependencies())
    if isinstance(e, Blockwise):
        return any(_is_intermediate(d) for d in e.dependencies())
    return False


def _meta_rows(root):
    """the largest number of rows any node of the LOGICAL plan declares in its meta (must be 0: a meta is an empty object)"""
    import pandas as pd
    n = 0
    for e in root.walk():
        try:
            m = e._meta
        except Exception:
            continue
        if isinstance(m, (pd.DataFrame, pd.Series, pd.Index)):
            n = max(n, int(len(m)))
    return n


def walk_plan(low, stage, base):
    """one lowered plan: node lines (C06/C07) + graph line (C09)"""
    import dask
    import pandas as pd
    lines = []
    nodes, seen = [], set()
    for e in low.walk():
        if e._name not in seen:
            seen.add(e._name)
            nodes.append(e)
    graph = low.__dask_graph__()
    want = [[(e._name, i) for i in range(e.npartitions)] for e in nodes]
    try:
        got = dask.get(graph, want)
        exec_err = ""
    except Exception as ex:
        got, exec_err = None, f"{type(ex).__name__}: {ex}"[:200]
    if got is not None:
        for e, parts in zip(nodes, got):
            divs = e.divisions
            known = divs[0] is not None and not any(d is None for d in divs) and not any(isinstance(d, str) for d in divs)
            try:
                div = [_enc_label(d) for d in divs] if known else []
            except Exception:
                known, div = False, []
            if _is_intermediate(e):
                known, div = False, []          # only the partition count is checked for intermediates
            meta = e._meta
            decl = schema_of(meta)
            pf = [part_facts(p) for p in parts]
            # per-partition schema only for partitions that are pandas objects of a collection node
            ps = [] if _is_intermediate(e) else [schema_of(p) for p in parts if isinstance(p, (pd.DataFrame, pd.Series, pd.Index))]
            line = dict(base, kind="node", stage=stage, cls=type(e).__name__, np=int(e.npartitions), known=bool(known), div=div, div_has_null=bool(NULL in div),
                        parts=pf, decl=decl, pschemas=ps, has_result=False, rschema=decl, asserted=False, is_root=(e is low or e._name == low._name),
                        meta_rows=0 if _is_intermediate(e) or not hasattr(meta, "__len__") or not isinstance(meta, (pd.DataFrame, pd.Series, pd.Index)) else int(len(meta)))
            lines.append(line)
    try:
        g, outs, nkeys = graph_facts(low)
        lines.append(dict(base, kind="graph", stage=stage, graph=g, outs=outs, nkeys=nkeys))
    except Exception as ex:
        lines.append(dict(base, kind="graph_error", stage=stage, err=f"{type(ex).__name__}: {ex}"[:200]))
    return lines, exec_err


def special_programs():
    """programs outside the linear QueryGen space: one frame feeding two differently parameterised instances of the
    same operator family inside ONE graph (their helper task keys must not collide), broadcast joins of every kind
    and suffix pair, frames with integer / falsy column labels"""
    import itertools
    progs = {}

    def src(kind):
        import numpy as np
        import pandas as pd
        import dask_expr as dx
        from . import rel as _rel
        tabs = _rel.make_tables(1, nrows=(12, 8))
        if kind == "known":
            return dx.from_pandas(tabs["T1"], npartitions=3), dx.from_pandas(tabs["T2"], npartitions=2)
        pdf = tabs["T1"]
        pieces = [pdf.iloc[0:4], pdf.iloc[4:8], pdf.iloc[8:12]]
        return dx.from_map(_rel._Pieces(pieces), [0, 1, 2], meta=pdf.iloc[:0]), dx.from_pandas(tabs["T2"], npartitions=2)

    fam = {
        "repart": [lambda d: d.repartition(npartitions=4), lambda d: d.repartition(npartitions=5), lambda d: d.repartition(npartitions=6),
                   lambda d: d.repartition(npartitions=7), lambda d: d.repartition(npartitions=2)],
        "diff": [lambda d: d.diff(1), lambda d: d.diff(2)],
        "shift": [lambda d: d.shift(1), lambda d: d.shift(2), lambda d: d.shift(-1)],
        "shuffle": [lambda d: d.shuffle("k", npartitions=2, shuffle_method="tasks"), lambda d: d.shuffle("k", npartitions=4, shuffle_method="tasks"),
                    lambda d: d.shuffle("k", npartitions=4, shuffle_method="tasks", max_branch=2)],
        "sort": [lambda d: d.sort_values("a", npartitions=2), lambda d: d.sort_values("a", npartitions=3), lambda d: d.sort_values("a", ascending=False)],
        "cum": [lambda d: d.cumsum(), lambda d: d.cummax()],
        "ffill": [lambda d: d.ffill(), lambda d: d.bfill()],
        "head": [lambda d: d.head(2, npartitions=2, compute=False), lambda d: d.head(3, npartitions=2, compute=False)],
        "dedup": [lambda d: d.drop_duplicates(split_out=1), lambda d: d.drop_duplicates(split_out=2)],
    }
    for kind in ("known", "unknown"):
        for name, fs in fam.items():
            for i, j in itertools.combinations(range(len(fs)), 2):
                def mk(kind=kind, f=fs[i], g=fs[j]):
                    import dask_expr as dx
                    d, _ = src(kind)
                    return dx.concat([f(d), g(d)])
                progs[f"two:{name}:{i}{j}:{kind}"] = mk
    for how in ("inner", "left", "right", "leftsemi"):
        for sfx in (("_x", "_y"), ("_big", "_small"), ("", "_r")):
            for swap in (False, True):
                def mk(how=how, sfx=sfx, swap=swap):
                    a, b = src("known")
                    l, r = (b, a) if swap else (a, b)
                    return l.merge(r, on="k", how=how, suffixes=sfx, broadcast=True, shuffle_method="tasks")
                progs[f"bcast:{how}:{sfx[0]}{sfx[1]}:{swap}"] = mk

    def intframe():
        import numpy as np
        import pandas as pd
        import dask_expr as dx
        pdf = pd.DataFrame({0: np.arange(12) % 3 + 0.0, 1: np.arange(12) % 4, 2: np.arange(12) * 1.5, "": np.arange(12) % 2})
        return dx.from_pandas(pdf, npartitions=3)
    ints = {
        "gb_size0": lambda d: d.groupby(1)[0].size(), "gb_sum0": lambda d: d.groupby(1)[0].sum(), "gb_size_empty": lambda d: d.groupby(1)[""].size(),
        "gb_count2": lambda d: d.groupby(1)[2].count(), "col0": lambda d: d[0], "colempty": lambda d: d[""], "proj02": lambda d: d[[0, 2]],
        "add": lambda d: d[0] + d[2], "rename0": lambda d: d.rename(columns={0: "z"}), "sum": lambda d: d.sum(), "vc": lambda d: d[1].value_counts(),
        "gb_mean": lambda d: d.groupby(1).mean(), "nunique": lambda d: d[0].nunique(), "max0": lambda d: d[0].max(), "filter0": lambda d: d[d[0] > 0][0],
    }
    for name, f in ints.items():
        progs[f"int:{name}"] = (lambda f=f: f(intframe()))
    return progs


def replay(case):
    """program -> trace lines for C06 / C07 / C09"""
    from dask_expr._expr import optimize_until
    if case.get("special"):
        return replay_special(case)
    q = case["q"]
    tabs = rel.make_tables(case["dseed"], t2_index=case.get("t2_index", "overlap"))
    if case.get("t2_index", "overlap") != "overlap":
        env = rel.dask_sources(tabs, {"T1": ("from_pandas", case["np1"]), "T2": ("from_pandas", case["np2"])})
    elif case.get("layout") == "B":
        env = rel.dask_sources(tabs, {"T1": ("cuts", case["cuts1"], False), "T2": ("from_pandas", 1)})
    else:
        env = rel.cached_sources(case["dseed"], tabs, {"T1": ("from_pandas", case["np1"]), "T2": ("from_pandas", case["np2"])})
    base = {"case": case["cid"]}
    try:
        coll = rel.build(q, env, "dask")
    except Exception as ex:
        return {"unbuildable": f"{type(ex).__name__}: {ex}"[:200]}
    out = []
    schemas = []
    for stage in ("logical", "simplified-logical", "tuned-logical", "physical", "simplified-physical", "fused"):
        try:
            e = optimize_until(coll.expr, stage)
            schemas.append(dict(schema_of(e._meta), stage=stage))
        except Exception as ex:
            schemas.append({"stage": stage, "err": type(ex).__name__})
    ok = [s for s in schemas if "err" not in s]
    out.append(dict(base, kind="stages", schemas=[{k: v for k, v in s.items() if k != "stage"} for s in ok], stages=[s["stage"] for s in ok]))
    for stage, mk in (("lowered-unoptimized", lambda: coll.expr.lower_completely()),
                      ("simplified-physical", lambda: optimize_until(coll.expr, "simplified-physical")),
                      ("fused", lambda: optimize_until(coll.expr, "fused"))):
        try:
            low = mk()
        except Exception as ex:
            out.append(dict(base, kind="plan_error", stage=stage, err=f"{type(ex).__name__}: {ex}"[:200]))
            continue
        lines, err = walk_plan(low, stage, base)
        out.extend(lines)
        if err:
            out.append(dict(base, kind="exec_error", stage=stage, err=err))
    # the logical root's own claims (npartitions / divisions / meta before any optimization) against the computed result
    try:
        import dask
        root = coll.expr
        low = root.lower_completely()
        parts = dask.get(low.__dask_graph__(), low.__dask_keys__())
        divs = root.divisions
        known = divs[0] is not None and not any(d is None for d in divs) and not any(isinstance(d, str) for d in divs)
        res = coll.compute(scheduler="sync")
        out.append(dict(base, kind="node", stage="logical-root", cls=type(root).__name__, np=int(root.npartitions), known=bool(known),
                        div=[_enc_label(d) for d in divs] if known else [], parts=[part_facts(p) for p in parts], decl=schema_of(root._meta),
                        pschemas=[schema_of(p) for p in parts], has_result=True, rschema=schema_of(res), asserted=False, is_root=True, meta_rows=_meta_rows(root)))
        # metadata-only row counts
        if root.ndim > 0:
            pairs = [[int(len(coll)), int(len(res))]]
            if root.ndim == 2:
                pairs.append([int(coll.shape[0].compute() if hasattr(coll.shape[0], "compute") else coll.shape[0]), int(res.shape[0])])
            if root.ndim == 1 or len(root.columns) > 0:      # size of a zero-column frame is left out (see DESIGN: F38)
                pairs.append([int(coll.size.compute()), int(res.size)])
            out.append(dict(base, kind="lens", stage="logical-root", pairs=pairs))
    except Exception as ex:
        out.append(dict(base, kind="root_error", err=f"{type(ex).__name__}: {ex}"[:200]))
    return {"lines": out}


def replay_special(case):
    from dask_expr._expr import optimize_until
    base = {"case": case["cid"]}
    try:
        coll = special_programs()[case["special"]]()
    except Exception as ex:
        return {"unbuildable": f"{type(ex).__name__}: {ex}"[:200]}
    out = []
    schemas = []
    for stage in ("logical", "simplified-logical", "tuned-logical", "physical", "simplified-physical", "fused"):
        try:
            schemas.append(dict(schema_of(optimize_until(coll.expr, stage)._meta), stage=stage))
        except Exception as ex:
            schemas.append({"stage": stage, "err": type(ex).__name__})
    ok = [s for s in schemas if "err" not in s]
    out.append(dict(base, kind="stages", schemas=[{k: v for k, v in s.items() if k != "stage"} for s in ok], stages=[s["stage"] for s in ok]))
    for stage, mk in (("lowered-unoptimized", lambda: coll.expr.lower_completely()), ("fused", lambda: optimize_until(coll.expr, "fused"))):
        try:
            low = mk()
        except Exception as ex:
            out.append(dict(base, kind="plan_error", stage=stage, err=f"{type(ex).__name__}: {ex}"[:200]))
            continue
        lines, err = walk_plan(low, stage, base)
        out.extend(lines)
        if err:
            out.append(dict(base, kind="exec_error", stage=stage, err=err))
    try:
        import dask
        root = coll.expr
        low = root.lower_completely()
        parts = dask.get(low.__dask_graph__(), low.__dask_keys__())
        res = coll.compute(scheduler="sync")
        divs = root.divisions
        known = divs[0] is not None and not any(d is None for d in divs) and not any(isinstance(d, str) for d in divs)
        import pandas as pd
        out.append(dict(base, kind="node", stage="logical-root", cls=type(root).__name__, np=int(root.npartitions), known=bool(known),
                        div=[_enc_label(d) for d in divs] if known else [], parts=[part_facts(p) for p in parts], decl=schema_of(root._meta),
                        pschemas=[schema_of(p) for p in parts if isinstance(p, (pd.DataFrame, pd.Series, pd.Index))], has_result=True, rschema=schema_of(res), asserted=False, is_root=True,
                        meta_rows=_meta_rows(root)))
    except Exception as ex:
        out.append(dict(base, kind="root_error", err=f"{type(ex).__name__}: {ex}"[:200]))
    return {"lines": out}


def lens_history(case):
    """C06 lengths under session history: one from_pandas source with unequal partitions; metadata-only len() of
    several partition selections (through a projection / elementwise op, where Len is answered from the source's
    partition lengths) asked one after the other on the SAME source"""
    import numpy as np
    import pandas as pd
    import dask_expr as dx
    rnd = random.Random(case["seed"])
    n = rnd.choice([17, 23, 26])
    pdf = pd.DataFrame({"a": np.arange(n) % 4, "b": np.arange(n) * 1.5}, index=pd.Index(np.arange(n), name="ix"))
    df = dx.from_pandas(pdf, npartitions=rnd.choice([3, 4, 5]))
    import dask
    full = [len(p) for p in dask.compute(*df.to_delayed(), scheduler="sync")]
    sels = [[i] for i in range(df.npartitions)] + [[i, j] for i in range(df.npartitions) for j in range(df.npartitions) if i != j][:8]
    rnd.shuffle(sels)
    pairs, desc = [], []
    for P in sels:
        want = sum(full[p] for p in P)
        for how, mk in (("col", lambda: df.partitions[P].a), ("add1", lambda: df.partitions[P].a + 1), ("proj", lambda: df.partitions[P][["b"]])):
            try:
                pairs.append([int(len(mk())), int(want)])
                desc.append(f"{how}{P}")
            except Exception as ex:
                pairs.append([-1, int(want)])
                desc.append(f"{how}{P}:{type(ex).__name__}")
    return {"lines": [{"case": case["cid"], "kind": "lens", "stage": "history", "pairs": pairs, "desc": desc}]}


def run_for(pid, tier="quick", seed=0, replay_path=None):
    chk = common.Check(pid, tier, seed)
    t = TIERS[tier]
    rnd = random.Random(seed)
    if replay_path:
        with open(replay_path) as f:
            c = json.load(f)["case"]
        cases = [c["program"]]
    else:
        # the assembly model (C09) / nothing else needs a design run here: the invariants are evaluated on traces
        if pid == "C09":
            cfg = tlc.cfg(spec="Spec", constants={"NNodes": 4, "NNames": 4}, invariants=["AssemblyOK", "NothingDropped", "CollisionDrops"])
            r = tlc.run("PlanWalk", cfg)
            chk.add_tlc("PlanWalk graph assembly model", r)
            if r.violated:
                raise tlc.MachineryError("assembly model violated " + r.violated)
        qs = rel.gen_queries("general", t["depth"], seed=seed, sample=t["sample"], sim_num=t["sim_num"], sim_depth=t["sim_depth"], chk=chk)
        cases = []
        for c in qs:
            lay = "B" if rnd.random() < 0.3 else "A"
            cases.append({"q": c["q"], "sc": c["sc"], "dseed": rnd.randrange(5), "np1": rnd.choice([2, 3]), "np2": rnd.choice([1, 2]),
                          "cuts1": rnd.choice([[3, 3, 6], [0, 4], [2, 5, 9]]), "layout": lay})
        # concat of inputs whose index ranges touch / are disjoint (divisions can be kept)
        for c in [c for c in cases if not c.get("special") and "concat" in rel.ops_of(c["q"])][: 60 if tier == "quick" else 600]:
            for mode in ("touch", "after"):
                cases.append(dict(c, t2_index=mode, layout="A"))
        for name in sorted(special_programs()):
            cases.append({"special": name, "q": {"op": "special:" + name}})
        if pid == "C06":
            for i in range(12 if tier == "quick" else 80):
                cases.append({"lens_history": True, "seed": seed * 1000 + i})
    for i, c in enumerate(cases):
        c["cid"] = i
    common.assert_repo()
    raw = common.pmap(_dispatch, cases)
    lines = []
    unb = perr = 0
    for c, r in zip(cases, raw):
        if "__machinery__" in r:
            chk.machinery.append(r["__machinery__"] + " :: " + json.dumps(c.get("q", {}))[:160])
            continue
        if "unbuildable" in r:
            unb += 1
            continue
        lines.extend(r["lines"])
    if len(chk.machinery) > 0.03 * len(cases):
        raise tlc.MachineryError(f"too many replay failures: {chk.machinery[:3]}")
    # select the lines of this property
    sel = []
    for ln in lines:
        if pid == "C06" and ln["kind"] in ("node", "lens"):
            sel.append(dict(ln, prop="C06"))
        elif pid == "C07" and ln["kind"] in ("node", "stages"):
            sel.append(dict(ln, prop="C07"))
        elif pid == "C09" and ln["kind"] == "graph":
            sel.append(dict(ln, prop="C09"))
    errs = [ln for ln in lines if ln["kind"].endswith("_error")]
    for i, ln in enumerate(sel):
        ln["tid"] = i
    chk.evaluations = len(sel)
    keep = {"C06": ("tid", "kind", "prop", "np", "known", "div", "parts", "asserted", "pairs"),
            "C07": ("tid", "kind", "prop", "decl", "pschemas", "has_result", "rschema", "schemas", "meta_rows"),
            "C09": ("tid", "kind", "prop", "graph", "outs")}[pid]
    for ln in sel:
        ln.setdefault("meta_rows", 0)
    slim = [{k: v for k, v in ln.items() if k in keep} for ln in sel]
    cfg = tlc.cfg(init="Init", next="Next", postcondition="AllConsumed")
    results, rejects, _, _ = tlc.validate("PlanWalkTrace", slim, cfg_text=cfg, chunk=400, parallel=10)
    for r in results:
        chk.add_tlc("PlanWalkTrace", r)
    chk.traces = len(sel)
    bycid = {c["cid"]: c for c in cases}
    for ln in sel:
        c = bycid[ln["case"]]
        if ln["kind"] == "node" and (ln["np"] > 1 or ln["known"]):
            chk.note_nontrivial(common.case_hash([c.get("q"), ln["stage"], ln["cls"], ln["np"]]))
        elif ln["kind"] == "graph" and len(ln["graph"]) > 2:
            chk.note_nontrivial(common.case_hash([c.get("q"), ln["stage"]]))
        elif ln["kind"] in ("lens", "stages"):
            chk.note_nontrivial(common.case_hash([c.get("q", c.get("seed")), ln["kind"], ln.get("stage")]))
        if ln["tid"] in rejects:
            pub = {"program": {k: v for k, v in c.items() if k != "cid"}, "ops": rel.ops_of(c["q"]) if "q" in c and not c.get("special") else [], "stage": ln.get("stage"),
                   "cls": ln.get("cls", ""), "kind": ln["kind"], "q": c.get("q", {"op": "none"}), "div_has_null": bool(NULL in (ln.get("div") or []))}
            if "schemas" in ln:
                strip = lambda sch: {k: v for k, v in sch.items() if k != "iname"}
                pub["stage_diff_only_iname"] = bool(all(strip(x) == strip(ln["schemas"][0]) for x in ln["schemas"]))
            det = {k: ln[k] for k in ("np", "known", "div", "parts", "decl", "pschemas", "rschema", "schemas", "stages", "pairs", "desc") if k in ln}
            if ln["kind"] == "graph":
                det = {"nkeys": ln["nkeys"]}
            chk.fail(rejects[ln["tid"]], pub, det)
    chk.extra["unbuildable_queries"] = unb
    chk.extra["plan_or_execution_errors_seen"] = len(errs)
    chk.extra["error_samples"] = [e.get("err", "") for e in errs[:5]]
    chk.rule = ("programs = reachable states of spec/QueryGen.tla (focus general; all depth<=1, seeded sample of depth 2, simulated deeper), seeded layout A (from_pandas) or B "
                "(from_map with an empty partition, unknown divisions); per program the unoptimized-lowered, simplified-physical and fused plans are walked: every node's "
                "reports vs its computed partitions (one graph execution per plan), the logical root's reports vs the computed result, metadata-only lengths, the layers of every node. "
                "non-trivial = a node with >1 partition or known divisions / a graph with >2 keys / a lengths or stages line")
    for ln in sel[5:4000:1500]:
        chk.sample({k: v for k, v in ln.items() if k in ("kind", "stage", "cls", "np", "known", "div", "parts", "decl", "pairs", "schemas") and not isinstance(v, list) or k in ("div", "pairs")})
    chk.assumptions += ["a node is materialised by executing the plan's own graph for the node's keys",
                        "index labels are encoded order-preservingly (x1000); non-numeric labels by a checksum (order not meaningful: such nodes report unknown divisions in this tier)"]
    return chk.finish()


def _dispatch(case):
    if case.get("lens_history"):
        return lens_history(case)
    return replay(case)

"""C01 - optimization never changes what a query computes (driver: family.py, program space: QueryGen focus general)."""
from . import family

TIERS = family.TIERS
replay = family.replay


def run(tier="quick", seed=0, replay_path=None):
    return family.run_family("C01", "general", TIERS, tier, seed, replay_path)

"""C05 - results do not depend on task scheduling; tasks never mutate their inputs.

spec/Sched.tla: scheduler model (design-level hazard analysis on small graphs; for the dependency graph of every REAL
task graph TLC -simulate produces complete schedules). The harness executes the real tasks in exactly those orders
(plus adversarial orders for every shared key and real thread pools), hashing every argument object before and after
each call. spec/SchedTrace.tla validates Safety, WriteOnce, NoMutation, SameOutputs, SourcesIntact.
"""
from __future__ import annotations

import hashlib
import json
import pickle
import random

from . import common, rel, tlc

TIERS = {
    "quick": dict(qsample=45, sim_num=15, tlc_orders=3, threads=[4], templates=1),
    "thorough": dict(qsample=400, sim_num=45, tlc_orders=12, threads=[2, 8, 16], templates=4),
}


# ------------------------------------------------------------------------------ hashing
def hash_obj(o, canonical=False, _depth=0, sortcols=False):
    import numpy as np
    import pandas as pd
    try:
        if isinstance(o, (pd.DataFrame, pd.Series)) and canonical:
            try:
                if isinstance(o, pd.DataFrame) and sortcols:
                    o = o[sorted(o.columns, key=repr)]
                if isinstance(o, pd.DataFrame):
                    o2 = o.sort_values(list(o.columns), kind="stable") if len(o) and len(o.columns) else o
                else:
                    o2 = o.sort_values(kind="stable")
                o2 = o2.reset_index(drop=True)
            except Exception:
                o2 = o.reset_index(drop=True)
            return hashlib.sha1(pickle.dumps((o2.to_dict("list") if isinstance(o2, pd.DataFrame) else o2.tolist(), str(getattr(o2, "dtypes", getattr(o2, "dtype", ""))))), usedforsecurity=False).hexdigest()
        if isinstance(o, (pd.DataFrame, pd.Series, pd.Index)):
            h = hashlib.sha1(usedforsecurity=False)
            h.update(pickle.dumps(o, protocol=4))
            return h.hexdigest()
        if isinstance(o, (list, tuple)) and _depth < 4:
            return "seq:" + hashlib.sha1("|".join(hash_obj(x, canonical, _depth + 1, sortcols) for x in o).encode(), usedforsecurity=False).hexdigest()
        if isinstance(o, dict) and _depth < 4:
            return "dict:" + hashlib.sha1("|".join(repr(k) + "=" + hash_obj(v, canonical, _depth + 1) for k, v in sorted(o.items(), key=lambda kv: repr(kv[0]))).encode(), usedforsecurity=False).hexdigest()
        return hashlib.sha1(pickle.dumps(o, protocol=4), usedforsecurity=False).hexdigest()
    except Exception:
        return "unpicklable:" + type(o).__name__       # partd files, locks ...: state outside the graph by design


class Numbers:
    def __init__(self):
        self.m = {}

    def __call__(self, h):
        return self.m.setdefault(h, len(self.m))


# ------------------------------------------------------------------------------ programs
def _ident_copy(df):
    return df.copy()


def _user_fn(df):
    out = df.copy()
    out["w"] = out.iloc[:, 0].fillna(0) * 2
    return out


def build_program(case):
    """-> (list of collections computed together, user source objects)"""
    import numpy as np
    import pandas as pd
    import dask_expr as dx
    kind = case["kind"]
    tabs = rel.make_tables(case["dseed"], nrows=(12, 8))
    env = rel.dask_sources(tabs, {"T1": ("from_pandas", case.get("np1", 3)), "T2": ("from_pandas", case.get("np2", 2))})
    srcs = [tabs["T1"], tabs["T2"]]
    if kind == "query":
        return [rel.build(case["q"], env, "dask")], srcs
    t1 = env["T1"]
    if kind == "shared":
        inter = t1.map_partitions(_ident_copy)
        cons = {
            "assign_same": lambda x: x.assign(a=x.a * 100),
            "assign_new": lambda x: x.assign(z=x.a + 1),
            "assign_two": lambda x: x.assign(a=x.b, b=x.a),
            "filter": lambda x: x[x.a > 1],
            "fillna": lambda x: x.fillna(0),
            "rename": lambda x: x.rename(columns={"a": "q"}),
            "add": lambda x: x + 1,
            "setcols": lambda x: _setcols(x),
            "reset": lambda x: x.reset_index(),
            "userfn": lambda x: x.map_partitions(_user_fn),
            "where": lambda x: x.where(x.a > 1, 0),
            "clip": lambda x: x.clip(lower=1),
            "astype": lambda x: x.astype({"a": "float32"}),
            "dropna": lambda x: x.dropna(),
            "ffill": lambda x: x.ffill(),
        }
        outs = [inter] + [cons[c](inter) for c in case["consumers"]]
        if case.get("mode") == "concat":
            return [dx.concat(outs)], srcs
        return outs, srcs
    if kind == "source_shared":
        # consumers directly on the source partitions (slices of the private copy of the user's frame)
        outs = [t1, t1.assign(a=t1.a * 100), t1.fillna(0), t1[t1.b > 0]]
        return outs, srcs
    if kind == "repartition_source":
        # dx.repartition(pdf, divisions) wraps the user's frame
        pdf = tabs["T1"]
        divs = [int(pdf.index[0]), int(pdf.index[len(pdf) // 2]), int(pdf.index[-1])]
        x = dx.repartition(pdf, divs)
        return [x, x.assign(a=x.a * 100), x.fillna(-1)], srcs
    if kind == "random_split":
        rs = np.random.RandomState(case["dseed"] + 5) if case.get("rs_instance") else case["dseed"] + 5
        a, b = t1.random_split([0.6, 0.4], random_state=rs)
        srcs.append(rs) if case.get("rs_instance") else None
        return [a, b], srcs
    if kind == "set_index":
        x = t1.set_index("k")
        return [x, x.assign(a=x.a + 1)], srcs
    if kind == "shuffle":
        x = t1.shuffle("k", shuffle_method=case.get("method", "tasks"))
        return [x, x.assign(a=x.a + 1), x.a.sum()], srcs
    raise ValueError(kind)


def _setcols(x):
    y = x.map_partitions(_ident_copy)
    y.columns = ["c0", "c1", "c2"]
    return y


def graph_of(colls):
    import dask
    from dask.core import flatten
    dsk = {}
    keys = []
    for c in colls:
        o = c.optimize()
        dsk.update(o.__dask_graph__())
        keys.append(list(flatten(o.__dask_keys__())))
    return dsk, keys


def run_order(dsk, order, outkeys, num, canonical, srcs):
    """execute the tasks of dsk in the given key order; -> events, result hash"""
    from dask.core import _execute_task, get_dependencies
    cache = {}
    events = []
    srcb = [num(hash_obj(s)) for s in srcs]
    for key in order:
        task = dsk[key]
        deps = sorted(get_dependencies(dsk, key), key=repr)
        # the partd file of a disk shuffle and its barrier token are state outside the graph by design
        hd = [d for d in deps if d in cache and not str(d[0] if isinstance(d, tuple) else d).startswith(("zpartd-", "barrier-"))]
        inb = [hash_obj(cache[d]) for d in hd]
        val = _execute_task(task, cache)
        ina = [hash_obj(cache[d]) for d in hd]
        cache[key] = val
        external = str(key[0] if isinstance(key, tuple) else key).startswith(("zpartd-", "barrier-", "shuffle-partition-"))
        events.append({"key": key, "deps": deps, "inb": [num(h) for h in inb], "ina": [num(h) for h in ina],
                       "out": num("external-state") if external else num(hash_obj(val, canonical))})
    srca = [num(hash_obj(s)) for s in srcs]
    result = num(hash_obj([[cache[k] for k in ks] for ks in outkeys], canonical))
    run_order.last_cc = hash_obj([[cache[k] for k in ks] for ks in outkeys], True, 0, True)      # diagnostic: bag of rows, column order ignored
    return events, srcb, srca, result


def topo_orders(dsk, rnd, n_extra):
    """canonical toposort + adversarial orders: for every key with >= 2 consumers, each consumer as early and as late
    as possible"""
    from dask.core import get_dependencies, toposort
    base = toposort(dsk)
    deps = {k: set(get_dependencies(dsk, k)) for k in dsk}
    dependents = {k: set() for k in dsk}
    for k, ds in deps.items():
        for d in ds:
            dependents[d].add(k)

    def prio_sort(prio):
        done, out = set(), []
        ready = [k for k in dsk if not deps[k]]
        while ready:
            ready.sort(key=lambda k: (prio.get(k, 0), repr(k)))
            k = ready.pop(0)
            out.append(k)
            done.add(k)
            for c in dependents[k]:
                if c not in done and c not in ready and deps[c] <= done:
                    ready.append(c)
        return out

    orders = [("canonical", base)]
    shared = [k for k, cs in dependents.items() if len(cs) >= 2]
    rnd.shuffle(shared)
    for k in shared[:4]:
        for c in sorted(dependents[k], key=repr)[:3]:
            anc = _descendants(c, dependents)
            orders.append((f"late:{c[0][:12]}", prio_sort({x: 5 for x in anc | {c}})))
            orders.append((f"early:{c[0][:12]}", prio_sort({x: -5 for x in _ancestors(c, deps) | {c}})))
    return orders[: 1 + n_extra]


def _descendants(k, dependents):
    out, st = set(), [k]
    while st:
        x = st.pop()
        for c in dependents[x]:
            if c not in out:
                out.add(c)
                st.append(c)
    return out


def _ancestors(k, deps):
    out, st = set(), [k]
    while st:
        x = st.pop()
        for c in deps[x]:
            if c not in out:
                out.add(c)
                st.append(c)
    return out


def replay(case):
    """phase 1 (worker): build the graph, return its dependency structure so the driver can ask TLC for schedules"""
    import dask
    from dask.core import get_dependencies, toposort
    rnd = random.Random(case["tid"])
    try:
        colls, srcs = build_program(case)
        dsk, outkeys = graph_of(colls)
    except Exception as ex:
        return {"unbuildable": f"{type(ex).__name__}: {ex}"[:200]}
    dsk = dict(dsk)
    base = toposort(dsk)
    ids = {k: i + 1 for i, k in enumerate(base)}
    depsl = [sorted(ids[d] for d in get_dependencies(dsk, k)) for k in base]
    canonical = any("collect" in repr(v)[:200] or "partd" in repr(k) for k, v in dsk.items())
    num = Numbers()
    lines = []
    kid = lambda k: ids[k]

    def mk(label, events, srcb, srca, result, ref, ref_result, crashed=False, ref_crashed=False):
        return {"label": label, "crashed": crashed, "ref_crashed": ref_crashed,
                "events": [{"k": kid(e["key"]), "deps": [kid(d) for d in e["deps"]], "inb": e["inb"], "ina": e["ina"], "out": e["out"]} for e in events],
                "ref": ref, "srcb": srcb, "srca": srca, "result": result, "ref_result": ref_result, "ntasks": len(dsk)}

    # canonical run
    try:
        ev0, sb, sa, res0 = run_order(dsk, base, outkeys, num, canonical, srcs)
        cc0 = run_order.last_cc
        ref = [[kid(e["key"]), e["out"]] for e in ev0]
        lines.append(mk("canonical", ev0, sb, sa, res0, ref, res0))
        ref_crashed = False
    except Exception as ex:
        return {"ref_crashed": f"{type(ex).__name__}: {ex}"[:200]}
    # the schedules TLC generates for THIS graph's dependency structure (spec/Sched.tla, -simulate) + adversarial orders
    tlc_stats = None
    try:
        got = tlc_schedules(depsl, case.get("n_tlc", 3), case["tid"] + 17 * case.get("seed", 0))
        tlc_orders, r_ = got if got else ([], None)
        if r_ is not None:
            tlc_stats = {"states": r_.distinct, "transitions": r_.generated, "wall_s": r_.wall_s}
    except Exception:
        tlc_orders = []
    orders = [(f"tlc{i}", [base[t - 1] for t in o]) for i, o in enumerate(tlc_orders)]
    orders += topo_orders(dsk, rnd, 6)[1:]
    for label, order in orders:
        try:
            # the same graph object is executed again in the new order (a disk shuffle creates its partd file inside a
            # task, so every execution gets a fresh one)
            ev, sb, sa, res = run_order(dsk, order, outkeys, num, canonical, srcs)
            ln = mk(label, ev, sb, sa, res, ref, res0)
            ln["same_modulo_column_order"] = bool(run_order.last_cc == cc0)
            lines.append(ln)
        except Exception as ex:
            lines.append({"label": label, "crashed": True, "ref_crashed": False, "events": [], "ref": ref, "srcb": [], "srca": [], "result": -1, "ref_result": res0,
                          "ntasks": len(dsk), "msg": f"{type(ex).__name__}: {ex}"[:200]})
    # repeated computes and real thread pools: only the final result is observed
    for label, kw in [("repeat-sync", dict(scheduler="sync"))] + [(f"threads-{n}", dict(scheduler="threads", num_workers=n)) for n in case.get("threads", [])]:
        try:
            colls3, srcs3 = build_program(case)
            sb = [num(hash_obj(s)) for s in srcs3]
            vals = dask.compute(*colls3, **kw)
            vals2 = dask.compute(*colls3, **kw)
            sa = [num(hash_obj(s)) for s in srcs3]
            r1 = num(hash_obj([[v] for v in vals], True))
            r2 = num(hash_obj([[v] for v in vals2], True))
            lines.append({"label": label, "crashed": False, "ref_crashed": False, "events": [], "ref": [], "srcb": sb, "srca": sa,
                          "result": r1, "ref_result": r2, "ntasks": len(dsk)})
        except Exception as ex:
            lines.append({"label": label, "crashed": True, "ref_crashed": False, "events": [], "ref": [], "srcb": [], "srca": [], "result": -1, "ref_result": -2,
                          "ntasks": len(dsk), "msg": f"{type(ex).__name__}: {ex}"[:200]})
    return {"lines": lines, "deps": depsl, "tlc_stats": tlc_stats, "n_tlc_orders": len(tlc_orders)}


def deps_only(case):
    from dask.core import get_dependencies, toposort
    try:
        colls, _ = build_program(case)
        dsk, _ = graph_of(colls)
        dsk = dict(dsk)
        base = toposort(dsk)
        ids = {k: i + 1 for i, k in enumerate(base)}
        return {"deps": [sorted(ids[d] for d in get_dependencies(dsk, k)) for k in base]}
    except Exception as ex:
        return {"unbuildable": f"{type(ex).__name__}: {ex}"[:200]}


def tlc_schedules(deps, n, seed):
    """ask TLC (spec/Sched.tla, -simulate) for complete schedules of this dependency graph"""
    nt = len(deps)
    if nt == 0 or nt > 140:
        return []
    d = {"Deps": "<<" + ", ".join("{" + ", ".join(map(str, ds)) + "}" for ds in deps) + ">>",
         "Mut": "<<" + ", ".join("{}" for _ in deps) + ">>"}
    cfg = tlc.cfg(spec="Spec", constants={"NT": nt, "W": 1}, defs=d, invariants=["SafeWhenPure", "EmitSchedule"])
    r = tlc.run("Sched", cfg, defs=tlc.mcdefs(d), simulate=f"num={n * 3}", depth=2 * nt + 2, workers=1, seed=seed, timeout=300)
    seen, out = set(), []
    for (js,) in r.tagged("SCHED"):
        if js not in seen:
            seen.add(js)
            out.append(json.loads(js))
        if len(out) >= n:
            break
    return out, r


def run(tier="quick", seed=0, replay_path=None):
    import concurrent.futures as cf
    chk = common.Check("C05", tier, seed)
    t = TIERS[tier]
    rnd = random.Random(seed)
    # design level: every DAG of 4 tasks given by (deps of task 4 on {1,2,3}, chain variants) with / without a mutator
    designs = [("<<{}, {1}, {1}, {2, 3}>>", "<<{}, {1}, {}, {}>>"), ("<<{}, {1}, {1}, {2, 3}>>", "<<{}, {}, {}, {}>>"),
               ("<<{}, {}, {1, 2}, {1, 2}>>", "<<{}, {}, {1}, {}>>"), ("<<{}, {1}, {2}, {3}>>", "<<{}, {}, {}, {3}>>")]
    hazards = 0
    for deps, mut in designs:
        d = {"Deps": deps, "Mut": mut}
        cfg = tlc.cfg(spec="Spec", constants={"NT": 4, "W": 2}, defs=d, invariants=["SafeWhenPure", "ReportHazard"], properties=["Progress"])
        r = tlc.run("Sched", cfg, defs=tlc.mcdefs(d))
        chk.add_tlc("Sched design model", r)
        hazards += 1 if r.tagged("HAZARD") else 0
        if r.violated:
            raise tlc.MachineryError("Sched model violated: " + str(r.violated))
    chk.extra["design_hazard_graphs"] = hazards
    if replay_path:
        with open(replay_path) as f:
            cases = [json.load(f)["case"]["program"]]
    else:
        qs = rel.gen_queries("general", 2, seed=seed, sample=t["qsample"], sim_num=t["sim_num"], sim_depth=4, chk=chk)
        qs = [c for c in qs if c["depth"] >= 2]
        rnd.shuffle(qs)
        cases = [{"kind": "query", "q": c["q"], "dseed": rnd.randrange(5), "np1": rnd.choice([2, 3]), "np2": rnd.choice([1, 2])} for c in qs[: t["qsample"]]]
        consumers = ["assign_same", "assign_new", "assign_two", "filter", "fillna", "rename", "add", "setcols", "reset", "userfn", "where", "clip", "astype", "dropna", "ffill"]
        for rep in range(t["templates"]):
            for i in range(0, len(consumers), 3):
                for mode in ("concat", "multi"):
                    cases.append({"kind": "shared", "consumers": consumers[i:i + 3], "mode": mode, "dseed": rep})
            for c in consumers:
                cases.append({"kind": "shared", "consumers": [c, rnd.choice(consumers)], "mode": "multi", "dseed": rep + 1})
            cases += [{"kind": "source_shared", "dseed": rep}, {"kind": "repartition_source", "dseed": rep},
                      {"kind": "random_split", "dseed": rep, "rs_instance": False}, {"kind": "random_split", "dseed": rep, "rs_instance": True},
                      {"kind": "set_index", "dseed": rep}, {"kind": "shuffle", "dseed": rep, "method": "tasks"}, {"kind": "shuffle", "dseed": rep, "method": "disk"}]
    for i, c in enumerate(cases):
        c["tid"] = i
        c["threads"] = t["threads"]
    common.assert_repo()
    for c in cases:
        c["n_tlc"] = t["tlc_orders"]
        c["seed"] = seed
    raw = common.pmap(replay, cases, chunk=1)
    lines, bytid = [], {}
    ntlc = ntlc_runs = 0
    for c, r in zip(cases, raw):
        if "__machinery__" in r:
            chk.machinery.append(r["__machinery__"] + " :: " + json.dumps({k: v for k, v in c.items() if k not in ("tlc_orders",)})[:160])
            continue
        if "unbuildable" in r or "ref_crashed" in r:
            continue
        if r.get("tlc_stats"):
            chk.states += r["tlc_stats"]["states"]
            chk.transitions += r["tlc_stats"]["transitions"]
            ntlc_runs += 1
        ntlc += r.get("n_tlc_orders", 0)
        for ln in r["lines"]:
            ln["tid"] = len(lines)
            bytid[ln["tid"]] = c
            lines.append(ln)
    if len(chk.machinery) > 0.05 * len(cases):
        raise tlc.MachineryError(f"too many replay failures: {chk.machinery[:3]}")
    chk.extra["tlc_generated_schedules"] = ntlc
    chk.tlc_runs.append({"run": "Sched -simulate on the dependency graph of each real task graph", "runs": ntlc_runs})
    chk.evaluations = len(lines)
    slim = [{k: v for k, v in ln.items() if k not in ("label", "msg", "ntasks", "same_modulo_column_order")} for ln in lines]
    cfg = tlc.cfg(init="Init", next="Next", postcondition="AllConsumed")
    results, rejects, _, _ = tlc.validate("SchedTrace", slim, cfg_text=cfg, chunk=120, parallel=10)
    for r in results:
        chk.add_tlc("SchedTrace", r)
    chk.traces = len(lines)
    for ln in lines:
        c = bytid[ln["tid"]]
        if ln["ntasks"] > 3 and ln["label"] != "canonical":
            chk.note_nontrivial(common.case_hash([{k: v for k, v in c.items() if k not in ("tid", "tlc_orders", "threads")}, ln["label"]]))
        if ln["tid"] in rejects:
            prog = {k: v for k, v in c.items() if k not in ("tid", "tlc_orders")}
            chk.fail(rejects[ln["tid"]], {"program": prog, "schedule": ln["label"], "kind": c["kind"], "ops": rel.ops_of(c["q"]) if "q" in c else [], "q": c.get("q", {"op": "none"}),
                                          "same_modulo_column_order": bool(ln.get("same_modulo_column_order", False))},
                     {"msg": ln.get("msg", ""), "ntasks": ln["ntasks"]})
    chk.rule = ("programs = seeded sample of TLC-generated queries (QueryGen) + templates with a materialised intermediate shared by several consumers (15 consumer kinds, as one concat "
                "graph and as a multi-output graph), consumers on source partitions, dx.repartition(pdf), random_split (int seed and RandomState instance), set_index, task/disk shuffles; "
                f"per program: canonical order, {t['tlc_orders']} TLC -simulate schedules of its dependency graph, adversarial orders (each consumer of a shared key earliest / latest), "
                f"repeated sync computes, thread pools {t['threads']}. non-trivial = a non-canonical execution of a graph with more than 3 tasks")
    for ln in lines[1:400:150]:
        chk.sample({"label": ln["label"], "ntasks": ln["ntasks"], "events": ln["events"][:3]})
    chk.assumptions += ["content hashes = sha1 of pickle (pandas objects) / recursive for containers; partd file handles and other unpicklable objects are exempt (state outside the graph, guarded by the barrier task)",
                        "outputs below a disk shuffle are hashed order-insensitively", "thread-pool runs observe only the final result and the sources (a sample of interleavings)"]
    return chk.finish()

"""C04 - column pruning never changes a result.

Program space: spec/QueryGen.tla focus "project" (every single / ordered pair selection, renames, prefixes, suffixes,
merge suffix pairs, implicit keys of groupby / merge / sort / set_index / drop_duplicates). Decided by TLC:
every optimizer stage == the unoptimized query incl. labels and order of columns (clause Columns), no new error, and
for programs whose result columns are fixed by the query (sc.closed) the result on inputs widened with unused columns
== the result on the original inputs.
"""
from . import family

TIERS = {
    "quick": dict(depth=2, sample=450, sim_num=80, sim_depth=4, stages=["simplified-logical", "fused"]),
    "thorough": dict(depth=2, sample=None, sim_num=240, sim_depth=4,
                     stages=["simplified-logical", "tuned-logical", "physical", "simplified-physical", "fused"]),
}


def _keep(c):
    """selections directly above the operators with their own projection rule are covered systematically"""
    q = c["q"]
    return q["op"] in ("proj", "col", "drop") and q["c"][0]["op"] in ("merge", "addprefix", "addsuffix", "rename", "combinefirst", "concat", "groupby", "setindex", "sort", "dropdup", "nlargest", "nsmallest", "drop", "assign")


def run(tier="quick", seed=0, replay_path=None):
    return family.run_family("C04", "project", TIERS, tier, seed, replay_path, widen=True, keep=_keep)

"""C06 - decided on the plan walk (harness/vx/walk.py, spec/PlanWalkOps.tla, spec/PlanWalkTrace.tla)."""
from . import walk


def run(tier="quick", seed=0, replay_path=None):
    return walk.run_for("C06", tier, seed, replay_path)

"""C19 - optimization terminates, is deterministic and idempotent.

spec/Driver.tla: the convergence loop of Expr.simplify model-checked for every rule-set behaviour (termination as a
liveness property, bounded passes, fixed point, raises only on a real cycle). spec/DriverTrace.tla: the pass sequences
recorded through the guarded hooks while optimize() runs on TLC-generated programs must be converging behaviours of that
loop within the bounds; optimize(q) has one name over repetitions and over fresh interpreters with other hash seeds;
optimize(optimize(q)) computes the same result.
"""
from __future__ import annotations

import json
import os
import random
import subprocess
import sys
import tempfile

from . import common, rel, tlc

TIERS = {
    "quick": dict(sample=300, sim_num=80, sim_depth=4, fsample=150),
    "thorough": dict(sample=3000, sim_num=240, sim_depth=4, fsample=1500),
}


def _tree_size(e):
    return sum(1 for _ in e.walk())


def build(case):
    tabs = rel.make_tables(case["dseed"], nrows=tuple(case.get("nrows", (9, 7))))
    env = rel.dask_sources(tabs, {"T1": ("from_pandas", case["np1"]), "T2": ("from_pandas", case["np2"])})
    return rel.build(case["q"], env, "dask")


def replay(case):
    from dask_expr import _verif
    try:
        coll = build(case)
    except Exception as ex:
        return {"unbuildable": f"{type(ex).__name__}: {ex}"[:150]}
    tr = {"tid": case["tid"], "unopt_err": False, "raised": "", "calls": [], "steps": 0, "nodes": _tree_size(coll.expr), "names": [], "idem": [False, True], "msg": ""}
    ref = rel.observe(lambda: rel.run_unoptimized(coll))
    if not ref["ok"]:
        tr["unopt_err"] = True
        return tr
    names = {}
    num = lambda s: names.setdefault(s, len(names))
    calls, cur, steps = [], [], [0]

    def sink(kind, f):
        if kind == "simplify_pass":
            cur.append([num(f["before"]._name), num(f["after"]._name)])
            if not f["changed"]:
                calls.append(list(cur))
                cur.clear()
        elif kind == "rewrite":
            steps[0] += 1
    _verif.set_sink(sink)
    try:
        opt = coll.optimize()
    except Exception as ex:
        tr["raised"] = type(ex).__name__
        tr["msg"] = str(ex)[:200]
        if cur:
            calls.append(list(cur))
        tr["calls"] = calls
        return tr
    finally:
        _verif.set_sink(None)
    tr["calls"] = calls
    tr["steps"] = steps[0]
    tr["hooks_seen"] = bool(calls)
    name0 = opt._name
    tr["optname"] = name0
    reps = [name0]
    for _ in range(2):
        reps.append(build(case).optimize()._name)
    tr["reps"] = reps
    # idempotence
    try:
        r1 = rel.observe(lambda: rel.run_compute(coll))
        o2 = opt.optimize()
        # both the optimized collection itself and the twice-optimized one must compute what the query computes
        r1b = rel.observe(lambda: opt.compute(scheduler="sync"))
        r2 = rel.observe(lambda: o2.compute(scheduler="sync"))
        rel.finalize([r1, r1b, r2])
        ordered = case["sc"]["ord"]
        # the unoptimized lowering computed (checked above): none of the optimized executions may fail
        bad = next((r for r in (r1, r1b, r2) if not r["ok"]), None)
        if bad is not None:
            tr["idem"] = [True, False]
            tr["msg"] = "re-optimized: " + bad.get("err", "") + ": " + bad.get("msg", "")[:160]
        elif r1["ok"]:
            same = True
            for r in (r1b, r2):
                a, b = r1["t"]["rows"], r["t"]["rows"]
                if not case["sc"]["idx"]:
                    a, b = [x[1:] for x in a], [x[1:] for x in b]
                same = same and ((a == b) if ordered else (sorted(a) == sorted(b))) and r1["t"]["cols"] == r["t"]["cols"]
            tr["idem"] = [False, bool(same)]
            # diagnostic (F30): the executions differ in the ORDER of the columns only
            tr["idem_cols_differ"] = bool(any(r1["t"]["cols"] != r["t"]["cols"] and sorted(r1["t"]["cols"]) == sorted(r["t"]["cols"]) for r in (r1b, r2)))
        tr["reopt_same_plan"] = (o2._name == name0)
    except Exception as ex:
        tr["idem"] = [True, False]
        tr["msg"] = f"re-optimize raised {type(ex).__name__}: {ex}"[:200]
    return tr


def child_main(path):
    """fresh interpreter: optimize names of all cases in the file"""
    import warnings
    warnings.filterwarnings("ignore")
    common._init_worker()
    with open(path) as f:
        cases = json.load(f)
    out = {}
    for c in cases:
        try:
            out[str(c["tid"])] = build(c).optimize()._name
        except Exception as ex:
            out[str(c["tid"])] = "ERR:" + type(ex).__name__
    print("NAMES " + json.dumps(out))


def other_process_names(cases, seeds=(1, 12345)):
    import concurrent.futures as cf
    scratch = tempfile.mkdtemp(prefix="verif_c19.")
    chunks = [cases[i::8] for i in range(8)]
    jobs = []
    for ci, ch in enumerate(chunks):
        if not ch:
            continue
        p = os.path.join(scratch, f"chunk{ci}.json")
        with open(p, "w") as f:
            json.dump(ch, f)
        for s in seeds:
            jobs.append((p, s))

    def runjob(job):
        p, s = job
        env = dict(os.environ, PYTHONHASHSEED=str(s), DASK_EXPR_VERIF="1", PYTHONPATH=os.path.join(common.ROOT, "harness"))
        r = subprocess.run([sys.executable, "-m", "vx.c19", "--child", p], env=env, capture_output=True, text=True, timeout=1800)
        for ln in r.stdout.splitlines():
            if ln.startswith("NAMES "):
                return s, json.loads(ln[6:])
        raise tlc.MachineryError("child interpreter failed: " + r.stderr[-800:])

    res = {}
    try:
        with cf.ThreadPoolExecutor(max_workers=16) as ex:
            for s, names in ex.map(runjob, jobs):
                for tid, nm in names.items():
                    res.setdefault(int(tid), []).append(nm)
    finally:
        import shutil
        shutil.rmtree(scratch, ignore_errors=True)
    return res


def _keep(c):
    ops = rel.ops_of(c["q"])
    return ops[-1] == "head" and len(ops) >= 3


def run(tier="quick", seed=0, replay_path=None):
    chk = common.Check("C19", tier, seed)
    t = TIERS[tier]
    rnd = random.Random(seed)
    cfg = tlc.cfg(spec="Spec", constants={"K": 4}, invariants=["Bounded", "FixedPoint", "RaisesOnlyOnCycle"], properties=["Terminates", "Deterministic"])
    r = tlc.run("Driver", cfg)
    chk.add_tlc("Driver convergence loop, every rule-set behaviour on 4 expressions", r)
    if r.violated or not r.ok:
        raise tlc.MachineryError("Driver model violated: " + str(r.violated))
    if replay_path:
        with open(replay_path) as f:
            c = json.load(f)["case"]
        cases = [{k: c[k] for k in ("q", "sc", "dseed", "np1", "np2")}]
    else:
        qs = rel.gen_queries("general", 2, seed=seed, sample=t["sample"], sim_num=t["sim_num"], sim_depth=t["sim_depth"], chk=chk, keep=_keep)
        qs += [c for c in rel.gen_queries("filter", 2, seed=seed + 1, sample=t["fsample"], sim_num=t["sim_num"], sim_depth=t["sim_depth"], chk=chk,
                                          keep=lambda c: c["q"]["op"] == "filter" and c["q"]["c"][0]["op"] == "merge" and c["q"]["pred"]["p"] == "and") if c["depth"] >= 2]
        cases = [{"q": c["q"], "sc": c["sc"], "dseed": rnd.randrange(5), "np1": rnd.choice([2, 3]), "np2": rnd.choice([1, 2])} for c in qs]
        # head / tail over operators that are not elementwise in the logical plan but lower to their elementwise input
        # (a repartition to the same partition count), with the npartitions values head accepts
        src = {"op": "src", "t": "T1"}
        inner = [{"op": "elem", "f": "add1", "c": [src]}, {"op": "assign", "col": "z", "e": {"x": "bin", "f": "add", "l": {"x": "col", "col": "a"}, "r": {"x": "lit", "v": 1}}, "c": [src]},
                 {"op": "elem", "f": "add1", "c": [{"op": "proj", "cols": ["a", "b"], "c": [src]}]}, {"op": "filter", "pred": {"p": "cmp", "f": "gt", "col": "a", "v": 0}, "c": [src]}]
        for e in inner:
            for np1 in (2, 3, 5):
                for k in (1, 2, -1):
                    for top in ("head", "tail"):
                        if top == "tail" and k != 1:
                            continue
                        q = {"op": top, "n": 3, "c": [{"op": "repart", "n": np1, "c": [e]}]}
                        if top == "head":
                            q["k"] = k
                        sc = {"kind": "frame", "cols": [], "ord": True, "idx": True, "nsrc": 1, "name": "", "closed": False, "tainted": False}
                        cases.append({"q": q, "sc": sc, "dseed": 1, "np1": np1, "np2": 1})
                        if top == "head" and np1 == 5:
                            # many partitions, more rows requested than the selected partitions' first one holds
                            q2 = {"op": "head", "n": 12, "k": k, "c": [{"op": "repart", "n": 10, "c": [e]}]}
                            cases.append({"q": q2, "sc": sc, "dseed": 1, "np1": 10, "np2": 1, "nrows": [40, 7]})
    for i, c in enumerate(cases):
        c["tid"] = i
    common.assert_repo()
    raw = common.pmap(replay, cases)
    traces = []
    for c, tr in zip(cases, raw):
        if "__machinery__" in tr:
            chk.machinery.append(tr["__machinery__"])
            continue
        if "unbuildable" in tr:
            continue
        traces.append(tr)
    if len(chk.machinery) > 0.03 * len(cases):
        raise tlc.MachineryError(f"too many replay failures: {chk.machinery[:3]}")
    live = [c for c in cases if any(tr["tid"] == c["tid"] and not tr["unopt_err"] and not tr["raised"] for tr in traces)]
    others = other_process_names(live) if not replay_path or True else {}
    allnames = {}
    num = lambda s: allnames.setdefault(s, len(allnames))
    hooks_missing = 0
    for tr in traces:
        names = list(tr.get("reps", [])) + others.get(tr["tid"], [])
        tr["names"] = [num(n) for n in names]
        if not tr.get("hooks_seen", False) and not tr["unopt_err"] and not tr["raised"]:
            hooks_missing += 1
    chk.extra["traces_without_hook_events"] = hooks_missing
    chk.extra["max_passes_per_simplify_call"] = max([len(c) for tr in traces for c in tr["calls"]] or [0])
    chk.extra["max_rewrite_steps"] = max([tr["steps"] for tr in traces] or [0])
    chk.extra["max_steps_per_node"] = round(max([tr["steps"] / (tr["nodes"] + 1) for tr in traces] or [0]), 2)
    chk.extra["reoptimized_plan_name_differs"] = sum(1 for tr in traces if tr.get("reopt_same_plan") is False)
    chk.evaluations = len(traces)
    slim = [{k: tr[k] for k in ("tid", "unopt_err", "raised", "calls", "steps", "nodes", "names", "idem")} for tr in traces]
    cfg = tlc.cfg(init="Init", next="Next", postcondition="AllConsumed", constants={"MaxPasses": 25, "StepsPerNode": 40})
    results, rejects, _, _ = tlc.validate("DriverTrace", slim, cfg_text=cfg, chunk=300, parallel=8)
    for r in results:
        chk.add_tlc("DriverTrace", r)
    chk.traces = len(traces)
    bycase = {c["tid"]: c for c in cases}
    for tr in traces:
        c = bycase[tr["tid"]]
        if not tr["unopt_err"] and tr["steps"] > 0:
            chk.note_nontrivial(common.case_hash(c["q"]))
        if tr["tid"] in rejects:
            chk.fail(rejects[tr["tid"]], {"q": c["q"], "sc": c["sc"], "dseed": c["dseed"], "np1": c["np1"], "np2": c["np2"], "ops": rel.ops_of(c["q"]), "errmsg": tr.get("msg", ""), "idem_cols_differ": bool(tr.get("idem_cols_differ"))},
                     {"msg": tr.get("msg", ""), "calls": tr["calls"], "steps": tr["steps"], "names": tr["names"]})
    chk.rule = ("programs = TLC-generated queries (QueryGen focus general and filter; all depth<=1, seeded samples of depth 2, simulated deeper; every program ending in head after >= 2 "
                "operators and every conjunction filter over a merge is included); per program: hook-recorded simplify passes / accepted rewrites of optimize(), its name over 3 in-process "
                "rebuilds and 2 fresh interpreters with other PYTHONHASHSEED, and optimize(optimize(q)). non-trivial = at least one rewrite was accepted")
    for tr in traces[3:900:300]:
        chk.sample({"q": bycase[tr["tid"]]["q"], "calls": tr["calls"], "steps": tr["steps"], "nodes": tr["nodes"], "names": tr["names"], "idem": tr["idem"]})
    chk.assumptions += ["bounds: <= 25 passes per simplify call, <= 40 accepted rewrites per query-tree node (measured maxima are in the evidence)",
                        "pass events come from the guarded hooks (DASK_EXPR_VERIF=1); if the hooked lines disappear, traces_without_hook_events counts it and only the observational clauses decide"]
    return chk.finish()


if __name__ == "__main__":
    if len(sys.argv) >= 3 and sys.argv[1] == "--child":
        child_main(sys.argv[2])

"""Building TLC-generated abstract queries (spec/QueryGen.tla) with the real dask-expr API and with pandas, executing
them in the ways the properties quantify over, and encoding the results for spec/RelTrace.tla."""
from __future__ import annotations

import json
import math
import random
import warnings
import zlib

NULL = -1000001


# --------------------------------------------------------------------------------------------- data
def make_tables(seed, nrows=(9, 7), nulls=True, wide=False, presorted=False, t2_index="overlap", hi=4):
    """two small pandas tables T1(a, b, k), T2(k, b, c) with duplicate keys, NULLs, unique sorted int index 'ix'"""
    import numpy as np
    import pandas as pd
    rnd = random.Random(seed)

    def col(n, hi, pnull):
        return [np.nan if (nulls and rnd.random() < pnull) else float(rnd.randrange(0, hi)) for _ in range(n)]

    n1, n2 = nrows
    span = max(40, 4 * max(n1, n2))
    t1 = pd.DataFrame({"a": col(n1, hi, 0.15), "b": col(n1, 3, 0.1), "k": col(n1, hi, 0.1)},
                      index=pd.Index(sorted(rnd.sample(range(0, span), n1)), name="ix"))
    t2 = pd.DataFrame({"k": col(n2, hi + 1, 0.1), "b": col(n2, 3, 0.0), "c": col(n2, 4, 0.15)},
                      index=pd.Index(sorted(rnd.sample(range(0, span), n2)), name="ix"))
    if t2_index in ("touch", "after"):
        # T2's index range starts exactly at (touch) / strictly after T1's last label: axis=0 concat can keep divisions
        start = int(t1.index.max()) + (0 if t2_index == "touch" else 3)
        t2.index = pd.Index([start + 2 * i for i in range(n2)], name="ix")
    if presorted:
        # T1 already ordered by k (ties included, NULL keys last): the planner's presorted fast paths are taken, and
        # the exhaustive layouts cut inside runs of equal keys
        t1 = t1.sort_values("k", kind="stable", na_position="last")
        t1.index = pd.Index(sorted(t1.index), name="ix")
    if wide:
        t1["u1"] = np.arange(n1, dtype="float64") * 3
        t1.insert(0, "u0", 7.0)
        t2["u2"] = np.arange(n2, dtype="float64") + 0.5
    return {"T1": t1, "T2": t2}


_SRC_CACHE = {}


def cached_sources(key, tabs, layout):
    """one source collection per (data, layout) per worker process: the programs replayed by a worker share their
    sources, as the queries of one user session do (planner caches attached to a source are exercised)"""
    k = json.dumps([key, sorted((n, list(map(str, v))) for n, v in layout.items())])
    if k not in _SRC_CACHE:
        if len(_SRC_CACHE) > 64:
            _SRC_CACHE.clear()
        _SRC_CACHE[k] = dask_sources(tabs, layout)
    return _SRC_CACHE[k]


def dask_sources(tabs, layout):
    """layout: {"T1": spec, "T2": spec}; spec = ("from_pandas", npartitions) | ("from_array", chunksize) | ("cuts", [row cut positions], known)"""
    import dask_expr as dx
    out = {}
    for name, pdf in tabs.items():
        spec = layout.get(name, ("from_pandas", 2))
        if spec[0] == "from_pandas":
            out[name] = dx.from_pandas(pdf, npartitions=spec[1], sort=True)
        elif spec[0] == "from_array":
            # an array source selects columns by POSITION (labels come from the operand): positional index 0..n-1
            out[name] = dx.from_array(pdf.to_numpy(dtype="float64"), chunksize=spec[1], columns=list(pdf.columns))
        else:
            cuts, known = spec[1], spec[2]
            bounds = [0] + list(cuts) + [len(pdf)]
            pieces = [pdf.iloc[a:b] for a, b in zip(bounds[:-1], bounds[1:])]
            kw = {}
            if known and all(len(p) for p in pieces):
                kw["divisions"] = tuple(p.index[0] for p in pieces) + (pieces[-1].index[-1],)
            out[name] = dx.from_map(_Pieces(pieces), list(range(len(pieces))), meta=pdf.iloc[:0], **kw)
    return out


class _Pieces:
    """partition factory of the from_map sources; tokenized by content (a plain object would be tokenized through
    pickle, which is not stable across interpreters for pandas objects)"""

    def __init__(self, frames, named=True):
        self.frames = frames
        if named:
            self.__name__ = "pieces"       # dask's funcname() would otherwise put repr(self), memory address included, into the name

    def __call__(self, i):
        return self.frames[i]

    def __dask_tokenize__(self):
        import pandas as pd
        return ("vx-pieces", tuple((tuple(map(str, f.columns)), str(f.index.name), len(f),
                                    int(pd.util.hash_pandas_object(f, index=True).sum()) if len(f) else 0) for f in self.frames))


# --------------------------------------------------------------------------------------------- building
def _pred(x, p):
    k = p["p"]
    if k == "cmp":
        return getattr(x[p["col"]], p["f"])(p["v"])
    if k == "cmpcol":
        return getattr(x[p["col"]], p["f"])(x[p["col2"]])
    if k == "isna":
        return x[p["col"]].isna()
    if k == "isin":
        return x[p["col"]].isin(list(p["vals"]))
    if k == "and":
        return _pred(x, p["a"]) & _pred(x, p["b"])
    if k == "or":
        return _pred(x, p["a"]) | _pred(x, p["b"])
    if k == "not":
        return ~_pred(x, p["a"])
    raise ValueError(k)


def _expr(x, e):
    k = e["x"]
    if k == "col":
        return x[e["col"]]
    if k == "lit":
        return e["v"]
    if k == "bin":
        l, r = _expr(x, e["l"]), _expr(x, e["r"])
        return {"add": lambda: l + r, "sub": lambda: l - r, "mul": lambda: l * r}[e["f"]]()
    raise ValueError(k)


LEAF_EXT = {}      # op -> f(q, env): extra leaf operators registered by a driver (e.g. a parquet read)
NODE_EXT = {}      # op -> f(q, x, env): extra unary operators


def build(q, env, lib, knobs=None):
    """q: abstract tree (dict). env: table name -> frame (dask-expr or pandas). lib: 'dask' | 'pandas'."""
    import pandas as pd
    knobs = knobs or {}
    op = q["op"]
    if op == "src":
        return env[q["t"]]
    if op in LEAF_EXT:
        return LEAF_EXT[op](q, env)
    x = build(q["c"][0], env, lib, knobs)
    dask = lib == "dask"
    if "kw" in q:                       # knobs given at this node only (session catalogs)
        knobs = dict(knobs, **q["kw"])
    if op in NODE_EXT:
        return NODE_EXT[op](q, x, env)
    if op == "proj":
        return x[list(q["cols"])]
    if op == "col":
        return x[q["col"]]
    if op == "drop":
        return x.drop(columns=[q["col"]])
    if op == "filter":
        return x[_pred(x, q["pred"])]
    if op == "assign":
        return x.assign(**{q["col"]: _expr(x, q["e"])})
    if op == "rename":
        return x.rename(columns={q["from"]: q["to"]})
    if op == "addprefix":
        return x.add_prefix(q["s"])
    if op == "addsuffix":
        return x.add_suffix(q["s"])
    if op == "elem":
        f = q["f"]
        if f == "add1":
            return x + 1
        if f == "fillna0":
            return x.fillna(0)
        if f == "neg":
            return -x
        if f == "astypefloat":
            return x.astype("float64")
        if f == "abs":
            return x.abs()
        if f == "clip01":
            return x.clip(lower=0, upper=1)
        if f == "where0":
            return x.where(x > 0, 0)
    if op == "dropna":
        return x.dropna()
    if op == "reduce":
        kw = {}
        if dask and "split_every" in knobs and q["f"] != "nunique":
            kw["split_every"] = knobs["split_every"]
        return getattr(x, q["f"])(**kw)
    if op == "len":
        if dask:
            from dask_expr._collection import new_collection
            from dask_expr._reductions import Len
            return new_collection(Len(x.expr))
        return len(x)
    if op == "groupby":
        kw = {}
        if dask:
            for kn in ("split_every", "split_out"):
                if kn in knobs:
                    kw[kn] = knobs[kn]
            if "shuffle_method" in knobs and knobs.get("split_out") not in (None, 1):
                kw["shuffle_method"] = knobs["shuffle_method"]
        gkw = {"dropna": False} if q.get("dropna") is False else {}
        g = x.groupby(list(q["by"]), sort=bool(q.get("sort", True)), **gkw)
        return getattr(g, q["f"])(**kw)
    if op == "merge":
        other = env[q["other"]]
        how, on, sfx = q["how"], list(q["on"]), tuple(q["suffixes"])
        if dask:
            kw = {}
            for kn in ("broadcast", "shuffle_method", "npartitions"):
                if kn in knobs:
                    kw[kn] = knobs[kn]
            return x.merge(other, how=how, on=on, suffixes=sfx, **kw)
        if how == "leftsemi":
            keys = other[on].drop_duplicates()
            return x.merge(keys, how="inner", on=on)
        return x.merge(other, how=how, on=on, suffixes=sfx)
    if op == "mergeasof":
        other = env[q["other"]]
        kw = {"left_index": True, "right_index": True, "direction": q["dir"]}
        if q["by"]:
            kw["by"] = list(q["by"]) if len(q["by"]) > 1 else q["by"][0]
        if dask:
            import dask_expr as dx
            return dx.merge_asof(x, other, **kw)
        return pd.merge_asof(x, other, **kw)
    if op == "concat":
        other = env[q["other"]]
        if dask:
            import dask_expr as dx
            return dx.concat([x, other], join=q["join"])
        return pd.concat([x, other], join=q["join"])
    if op == "combinefirst":
        return x.combine_first(env[q["other"]])
    if op == "sort":
        kw = {}
        if dask:
            for kn in ("npartitions", "upsample", "shuffle_method"):
                if kn in knobs:
                    kw[kn] = knobs[kn]
        return x.sort_values(list(q["by"]), ascending=bool(q["asc"]), **kw)
    if op == "setindex":
        kw = {}
        if dask:
            for kn in ("npartitions", "upsample", "shuffle_method"):
                if kn in knobs:
                    kw[kn] = knobs[kn]
        return x.set_index(q["col"], **kw)
    if op == "resetindex":
        return x.reset_index(drop=bool(q["drop"]))
    if op == "head":
        return x.head(q["n"], npartitions=q.get("k", -1), compute=False) if dask else x.head(q["n"])
    if op == "tail":
        return x.tail(q["n"], compute=False) if dask else x.tail(q["n"])
    if op == "cum":
        return getattr(x, q["f"])()
    if op == "shift":
        return x.shift(q["n"])
    if op == "diff":
        return x.diff(q["n"])
    if op == "ffill":
        return x.ffill()
    if op == "dropdup":
        kw = {}
        if dask:
            for kn in ("split_every", "split_out", "shuffle_method"):
                if kn in knobs:
                    kw[kn] = knobs[kn]
        sub = list(q["subset"]) or None
        return x.drop_duplicates(subset=sub, **kw)
    if op == "nlargest":
        return x.nlargest(q["n"], q["col"])
    if op == "nsmallest":
        return x.nsmallest(q["n"], q["col"])
    if op == "unique":
        if dask:
            kw = {kn: knobs[kn] for kn in ("split_every", "split_out", "shuffle_method") if kn in knobs}
            return x.unique(**kw)
        return pd.Series(x.unique(), name=x.name)
    if op == "valuecounts":
        if dask:
            kw = {kn: knobs[kn] for kn in ("split_every", "split_out") if kn in knobs}
            return x.value_counts(**kw)
        return x.value_counts()
    if op == "parts":
        # partitions[...] is only meaningful relative to a layout: dask side selects, pandas side cannot express it
        if dask:
            P = [p for p in q["P"] if p < x.npartitions]
            return x.partitions[P] if P else x.partitions[[0]]
        raise NotImplementedError("partitions[...] has no pandas meaning")
    if op == "repart":
        return x.repartition(npartitions=q["n"]) if dask else x
    if op == "shuffle":
        if dask:
            kw = {kn: knobs[kn] for kn in ("shuffle_method", "max_branch") if kn in knobs}
            return x.shuffle(q["on"], **kw)
        return x
    if op == "colbin":
        return x[q["l"]] + x[q["r"]]
    raise ValueError(op)


# --------------------------------------------------------------------------------------------- executing
def run_unoptimized(coll):
    """the query lowered without any optimization, executed with the synchronous scheduler"""
    import dask
    from dask_expr._collection import new_collection
    low = coll.expr.lower_completely()
    return _finish(new_collection(low), low)


def run_stage(coll, stage):
    import dask
    from dask_expr._collection import new_collection
    from dask_expr._expr import optimize_until
    e = optimize_until(coll.expr, stage)
    low = e.lower_completely()
    return _finish(new_collection(low), low)


def _finish(coll, low):
    import dask
    from dask.dataframe.dispatch import concat as dd_concat
    parts = dask.get(low.__dask_graph__(), low.__dask_keys__())
    if low.ndim == 0 or not hasattr(parts[0], "index"):
        return parts[0]
    parts = [p for p in parts]
    import pandas as pd
    if len(parts) == 1:
        return parts[0]
    out = pd.concat(parts)
    names = [p.index.name for p in parts]        # empty partitions included: pandas looks at their index name as well
    if len(set(names)) > 1:
        # partitions that disagree on the index NAME (a per-partition schema matter, judged by C07 - finding F59): which name the
        # concatenated result gets depends on the concatenating code path (pandas drops it, a repartition keeps the first):
        # the name is reported as unspecified ("*"), Rel!AcceptTable accepts any name against it
        out.attrs["verif_ambiguous_index_name"] = True
    return out


def run_compute(coll, **kw):
    return coll.compute(scheduler="sync", **kw)


# --------------------------------------------------------------------------------------------- encoding
def _label(x):
    if x is None:
        return ""
    return str(x)


def _num(v):
    """python number or None (NULL)"""
    import numpy as np
    import pandas as pd
    if v is None or v is pd.NaT:
        return None
    if isinstance(v, (bool, np.bool_)):
        return int(v)
    if isinstance(v, str):
        return zlib.crc32(v.encode()) % 1000003
    try:
        if pd.isna(v):
            return None
    except (TypeError, ValueError):
        pass
    if isinstance(v, (int, np.integer)):
        return int(v)
    if isinstance(v, (float, np.floating)):
        return float(v)
    if isinstance(v, pd.Timestamp):
        return int(v.value // 10**9)
    raise TypeError(f"cannot encode {type(v)}")


def raw_table(obj):
    """pandas object / scalar -> raw table dict with python numbers (None for NULL)"""
    import numpy as np
    import pandas as pd
    if isinstance(obj, pd.DataFrame):
        rows = [[_num(i)] + [_num(v) for v in r] for i, r in zip(obj.index, obj.to_numpy(dtype=object))]
        return {"kind": "frame", "cols": [_label(c) for c in obj.columns], "name": "", "iname": "*" if obj.attrs.get("verif_ambiguous_index_name") else _label(obj.index.name), "rows": rows}
    if isinstance(obj, pd.Series):
        rows = [[_num(i), _num(v)] for i, v in zip(obj.index, obj.to_numpy(dtype=object))]
        return {"kind": "series", "cols": [], "name": _label(obj.name), "iname": "*" if obj.attrs.get("verif_ambiguous_index_name") else _label(obj.index.name), "rows": rows}
    if isinstance(obj, pd.Index):
        rows = [[0, _num(v)] for v in obj]
        return {"kind": "index", "cols": [], "name": _label(obj.name), "iname": "", "rows": rows}
    return {"kind": "scalar", "cols": [], "name": "", "iname": "", "rows": [[0, _num(obj)]]}


def observe(fn):
    """run fn() -> result record with a raw table, or an error record"""
    try:
        with warnings.catch_warnings():
            warnings.simplefilter("ignore")
            return {"ok": True, "raw": raw_table(fn())}
    except Exception as ex:   # noqa
        return {"ok": False, "err": type(ex).__name__, "msg": str(ex)[:200]}


def finalize(results):
    """results: list of result records (mutated): choose a common scale and encode raw tables to ints"""
    vals = []
    for r in results:
        if r.get("ok") and "raw" in r:
            for row in r["raw"]["rows"]:
                vals.extend(v for v in row if isinstance(v, float))
    integral = all(math.isfinite(v) and abs(v - round(v)) < 1e-9 for v in vals)
    scale = 1 if integral else 1000

    def enc(v):
        if v is None:
            return NULL
        if isinstance(v, float) and not math.isfinite(v):
            return NULL + 1 if v < 0 else -NULL
        x = int(round(v * scale))
        return max(min(x, 2_000_000_000), -2_000_000_000)

    for r in results:
        if r.get("ok") and "raw" in r:
            t = r.pop("raw")
            t["rows"] = [[enc(v) for v in row] for row in t["rows"]]
            r["t"] = t
        r.setdefault("err", "")
        r.setdefault("t", {"kind": "none", "cols": [], "name": "", "iname": "", "rows": []})
        r.pop("msg", None) if False else None
    return scale


# --------------------------------------------------------------------------------------------- case generation by TLC
def gen_queries(focus, depth, *, seed=0, sample=None, sim_num=0, sim_depth=4, chk=None, keep=None):
    """enumerate the reachable states of spec/QueryGen.tla (BFS to `depth`), optionally add random behaviours
    (-simulate) of depth sim_depth; returns a list of {q, sc, depth}. `sample`: keep all states of depth <= 1 and a
    seeded sample of this many deeper ones."""
    from . import tlc
    cfg = tlc.cfg(spec="Spec", constants={"MaxOps": depth, "Focus": json.dumps(focus)}, invariants=["Emit"])
    r = tlc.run("QueryGen", cfg, workers=1, timeout=1200)
    if chk is not None:
        chk.add_tlc(f"QueryGen BFS focus={focus} depth={depth}", r)
    cases = [json.loads(p[0]) for p in r.tagged("CASE")]
    if not r.ok or len(cases) != r.distinct:
        raise tlc.MachineryError(f"QueryGen: {len(cases)} cases for {r.distinct} states")
    rnd = random.Random(seed)
    if sample is not None:
        shallow = [c for c in cases if c["depth"] <= 1 or (keep is not None and keep(c))]
        deep = [c for c in cases if not (c["depth"] <= 1 or (keep is not None and keep(c)))]
        rnd.shuffle(deep)
        cases = shallow + deep[:sample]
    if sim_num:
        cfg = tlc.cfg(spec="Spec", constants={"MaxOps": sim_depth, "Focus": json.dumps(focus)}, invariants=["Emit"])
        r2 = tlc.run("QueryGen", cfg, workers=1, simulate=f"num={sim_num}", depth=sim_depth + 1, seed=seed, timeout=1200)
        if chk is not None:
            chk.add_tlc(f"QueryGen simulate focus={focus} depth={sim_depth} num={sim_num}", r2)
        seen = {json.dumps(c["q"], sort_keys=True) for c in cases}
        extra = []
        for p in r2.tagged("CASE"):
            c = json.loads(p[0])
            key = json.dumps(c["q"], sort_keys=True)
            if c["depth"] >= 3 and key not in seen:
                seen.add(key)
                extra.append(c)
        rnd.shuffle(extra)
        cases += extra[:sim_num]      # TLC's simulator explores many more behaviours than asked for: keep a seeded sample
    return cases


def ops_of(q):
    out = []
    while True:
        out.append(q["op"])
        if "c" not in q:
            break
        q = q["c"][0]
    return out[::-1]


def groupby_fs(q):
    out = []
    while True:
        if q["op"] == "groupby":
            out.append(q["f"])
        if "c" not in q:
            return out
        q = q["c"][0]


def cum_input_allnull_partition(q, env):
    """diagnostic for failing cases that contain a cumulative operator (known finding F13): does the INPUT of that operator -
    a DataFrame - have a non-empty partition in which some column holds only NULLs?"""
    import dask
    try:
        node, targets = q, []
        while "c" in node:
            if node["op"] == "cum":
                targets.append(node["c"][0])
            node = node["c"][0]
        for target in targets:
            x = build(target, env, "dask")
            low = x.expr.lower_completely()
            for p in dask.get(low.__dask_graph__(), low.__dask_keys__()):
                if len(p) and getattr(p, "ndim", 1) == 2 and bool(p.isna().all().any()):
                    return True
        return False
    except Exception:
        return False


def sort_input_nullkey_partition(q, env):
    """diagnostic for failing sortedness checks (known finding F27): does the input of the top sort / set_index of the
    program (below filter / dropna / head) have a partition that holds no non-null value of the first sort key?"""
    import dask
    try:
        node = q
        while node["op"] in ("filter", "dropna", "head"):
            node = node["c"][0]
        if node["op"] not in ("sort", "setindex"):
            return False
        key = node["by"][0] if node["op"] == "sort" else node["col"]
        x = build(node["c"][0], env, "dask")
        low = x.expr.lower_completely()
        parts = dask.get(low.__dask_graph__(), low.__dask_keys__())
        return len(parts) > 1 and any(len(p) == 0 or bool(p[key].isna().all()) for p in parts)
    except Exception:
        return False

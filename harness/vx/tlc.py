"""Run TLC (model check / simulate / trace validation) on the specification suite and parse its output.

Every run happens in a scratch copy of /verif/spec (outside /verif and /repo) that is removed afterwards.
"""
from __future__ import annotations

import json
import os
import re
import shutil
import subprocess
import tempfile
import time
from dataclasses import dataclass, field

ROOT = os.path.dirname(os.path.dirname(os.path.dirname(os.path.abspath(__file__))))
SPEC = os.path.join(ROOT, "spec")
JAR = "/opt/veriftools/tla/tla2tools.jar:/opt/veriftools/tla/CommunityModules-deps.jar"
NCPU = int(os.environ.get("VERIF_WORKERS", str(min(16, os.cpu_count() or 4))))


class MachineryError(RuntimeError):
    """The machinery (not the implementation) failed: TLC crashed, parse error, timeout."""


@dataclass
class TLCResult:
    ok: bool                      # TLC finished without reporting an error
    generated: int = 0
    distinct: int = 0
    depth: int = 0
    wall_s: float = 0.0
    lines: list = field(default_factory=list)      # every "TAG|..." line printed by the spec (PrintT of a string)
    violated: str | None = None   # name of violated invariant/property (design-level)
    stdout: str = ""
    coverage: dict = field(default_factory=dict)
    outfiles: dict = field(default_factory=dict)   # name -> parsed ndjson/json written by the spec

    def tagged(self, tag):
        out = []
        for ln in self.lines:
            parts = ln.split("|")
            if parts[0] == tag:
                out.append(parts[1:])
        return out


def scratch_dir(prefix="verif_tlc."):
    base = os.environ.get("VERIF_SCRATCH", tempfile.gettempdir())
    return tempfile.mkdtemp(prefix=prefix, dir=base)


_RE_FINAL = re.compile(r"(\d+) states generated, (\d+) distinct states found, (\d+) states left on queue")
_RE_DEPTH = re.compile(r"The depth of the complete state graph search is (\d+)")
_RE_INV = re.compile(r"Error: Invariant (\S+) is violated")
_RE_PROP = re.compile(r"Error: (?:Temporal properties were violated|Action property (\S+) is violated)")
_RE_COV = re.compile(r"^<(\w+) line \d+, col \d+ to line \d+, col \d+ of module (\w+)>: (\d+):(\d+)", re.M)


def run(module, cfg_text, *, env=None, workers=None, simulate=None, depth=None, timeout=1800, files=None,
        coverage=False, deadlock=False, seed=None, outfiles=(), keep=False, jvm_opts=(), heap="8g", defs=None, extra=None):
    """Run TLC on spec/<module>.tla with the given configuration text.

    files: {relative name: text or bytes} extra files written into the scratch dir (trace inputs).
    outfiles: names of files the spec writes (via Json serialize) - parsed and returned.
    """
    t0 = time.time()
    work = scratch_dir()
    try:
        for fn in os.listdir(SPEC):
            if fn.endswith(".tla"):
                shutil.copy(os.path.join(SPEC, fn), os.path.join(work, fn))
        for name, content in (files or {}).items():
            mode = "wb" if isinstance(content, bytes) else "w"
            with open(os.path.join(work, name), mode) as f:
                f.write(content)
        with open(os.path.join(work, "run.cfg"), "w") as f:
            f.write(cfg_text)
        if defs or extra:
            # constants that are expressions: a wrapper module defines them, the cfg substitutes them (K <- mc_K)
            with open(os.path.join(work, "MCrun.tla"), "w") as f:
                f.write("---- MODULE MCrun ----\nEXTENDS " + module + "\n")
                for k, v in (defs or {}).items():
                    f.write(f"{k} == {v}\n")
                if extra:
                    f.write(extra + "\n")
                f.write("====\n")
            module = "MCrun"
        w = workers if workers is not None else NCPU
        cmd = ["java", "-XX:+UseParallelGC", f"-Xmx{heap}", "-Xss64m", *jvm_opts, "-cp", JAR, "tlc2.TLC",
               "-config", "run.cfg", "-metadir", os.path.join(work, "meta"), "-noGenerateSpecTE",
               "-workers", str(w)]
        if not deadlock:
            cmd.append("-deadlock")          # -deadlock DISABLES deadlock checking
        if coverage:
            cmd += ["-coverage", "1"]
        if simulate:
            cmd += ["-simulate", simulate]
        if depth:
            cmd += ["-depth", str(depth)]
        if seed is not None:
            cmd += ["-seed", str(seed)]
        cmd.append(module + ".tla")
        e = dict(os.environ)
        e.update({k: str(v) for k, v in (env or {}).items()})
        try:
            p = subprocess.run(cmd, cwd=work, env=e, capture_output=True, text=True, timeout=timeout)
        except subprocess.TimeoutExpired as ex:
            subprocess.run(["pkill", "-f", work], check=False)
            raise MachineryError(f"TLC timeout after {timeout}s on {module}") from ex
        out = p.stdout + "\n" + p.stderr
        res = TLCResult(ok=False, stdout=out, wall_s=time.time() - t0)
        for m in _RE_FINAL.finditer(out):
            res.generated, res.distinct = int(m.group(1)), int(m.group(2))
        if simulate and not res.generated:
            m = re.search(r"(\d+) states checked", out)
            if m:
                res.generated = res.distinct = int(m.group(1))
        m = _RE_DEPTH.search(out)
        if m:
            res.depth = int(m.group(1))
        m = _RE_INV.search(out)
        if m:
            res.violated = m.group(1)
        m = _RE_PROP.search(out)
        if m:
            res.violated = m.group(1) or "temporal"
        for ln in out.splitlines():
            ln = ln.strip()
            if len(ln) > 2 and ln[0] == '"' and ln[-1] == '"' and "|" in ln:
                res.lines.append(ln[1:-1].replace('\\"', '"').replace("\\\\", "\\"))
        if coverage:
            for m in _RE_COV.finditer(out):
                res.coverage[m.group(2) + "." + m.group(1)] = (int(m.group(3)), int(m.group(4)))
        finished = ("Model checking completed. No error has been found" in out
                    or "Finished in" in out or (simulate and p.returncode in (0, 12)))
        res.ok = ("No error has been found" in out) or (bool(simulate) and res.violated is None and "Error:" not in out)
        if res.violated is None and not res.ok:
            # neither a clean finish nor a property violation -> machinery problem (parse error, exception...)
            raise MachineryError(f"TLC failed on {module} (rc={p.returncode}):\n" + out[-4000:])
        for name in outfiles:
            path = os.path.join(work, name)
            if os.path.exists(path):
                with open(path) as f:
                    txt = f.read()
                try:
                    res.outfiles[name] = json.loads(txt)
                except json.JSONDecodeError:
                    res.outfiles[name] = [json.loads(l) for l in txt.splitlines() if l.strip()]
        return res
    finally:
        if not keep:
            shutil.rmtree(work, ignore_errors=True)


def cfg(*, spec=None, init=None, next=None, constants=None, invariants=(), properties=(), constraints=(),
        postcondition=None, view=None, symmetry=None, action_constraints=(), defs=None):
    """defs: constants given as TLA+ expressions; pass the same dict as run(defs=mcdefs(defs))."""
    lines = []
    if spec:
        lines.append(f"SPECIFICATION {spec}")
    else:
        lines.append(f"INIT {init}")
        lines.append(f"NEXT {next}")
    if constants or defs:
        lines.append("CONSTANTS")
        for k, v in (constants or {}).items():
            lines.append(f"  {k} = {v}" if not str(v).startswith("<-") else f"  {k} {v}")
    for k in (defs or {}):
        lines.append(f"  {k} <- mc_{k}")
    for i in invariants:
        lines.append(f"INVARIANT {i}")
    for p in properties:
        lines.append(f"PROPERTY {p}")
    for c in constraints:
        lines.append(f"CONSTRAINT {c}")
    for c in action_constraints:
        lines.append(f"ACTION_CONSTRAINT {c}")
    if postcondition:
        lines.append(f"POSTCONDITION {postcondition}")
    if view:
        lines.append(f"VIEW {view}")
    if symmetry:
        lines.append(f"SYMMETRY {symmetry}")
    lines.append("CHECK_DEADLOCK FALSE")
    return "\n".join(lines) + "\n"


def tla(v):
    """Python value -> TLA+ literal (ints, bools, strings, lists->sequences, sets, dicts->records)."""
    if isinstance(v, bool):
        return "TRUE" if v else "FALSE"
    if isinstance(v, int):
        return str(v)
    if isinstance(v, str):
        return json.dumps(v)
    if isinstance(v, (list, tuple)):
        return "<<" + ", ".join(tla(x) for x in v) + ">>"
    if isinstance(v, (set, frozenset)):
        return "{" + ", ".join(tla(x) for x in sorted(v, key=repr)) + "}"
    if isinstance(v, dict):
        if not v:
            return "<<>>"
        return "[" + ", ".join(f"{k} |-> {tla(x)}" for k, x in v.items()) + "]"
    raise TypeError(type(v))


def mcdefs(defs):
    return {"mc_" + k: v for k, v in defs.items()}


def validate(module, traces, *, cfg_text, chunk=2500, parallel=6, env=None, timeout=1800, **kw):
    """Trace validation: feed `traces` (list of dicts, each with a unique int 'tid') to spec/<module>.tla in
    chunks (one JVM per chunk, single worker so PrintT lines stay whole). Returns (results, rejects, diverges)
    where rejects = {tid: clause}. Every chunk must be consumed completely (state count = lines + 1)."""
    import concurrent.futures as cf
    chunks = [traces[i:i + chunk] for i in range(0, len(traces), chunk)] or []

    def one(ch):
        txt = "".join(json.dumps(t, separators=(",", ":")) + "\n" for t in ch)
        e = dict(env or {})
        e["TRACE_FILE"] = "trace.ndjson"
        r = run(module, cfg_text, env=e, workers=1, files={"trace.ndjson": txt}, timeout=timeout, **kw)
        if not r.ok or r.distinct != len(ch) + 1:
            raise MachineryError(f"trace validation of {module}: {r.distinct} states for {len(ch)} traces; violated={r.violated}\n" + r.stdout[-3000:])
        return r

    with cf.ThreadPoolExecutor(max_workers=parallel) as ex:
        results = list(ex.map(one, chunks))
    rejects, diverges, infos = {}, set(), []
    for r in results:
        for parts in r.tagged("REJECT"):
            rejects[int(parts[0])] = parts[1]
        for parts in r.tagged("DIVERGE"):
            diverges.add(int(parts[0]))
        for parts in r.tagged("INFO"):
            infos.append(parts)
    return results, rejects, diverges, infos

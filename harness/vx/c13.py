"""C13 - repartitioning preserves rows and order and honours the requested layout.

spec/RepartitionOps.tla  (planner transcriptions + postconditions), spec/Repartition.tla (design-level model over
all (a, b, force) / (n_in, n_out)), spec/RepartitionTrace.tla (conformance of what the real code did).
"""
from __future__ import annotations

import json
import os
import random

from . import common, plans, tlc

TIERS = {
    # DV: division values (even, so odd labels lie strictly between boundaries); IV: index labels
    "quick": dict(DV="{0, 2, 4, 6}", IV="0..6", IVmax=6, MaxLen=4, MaxN=6, profiles=["int", "float"]),
    "thorough": dict(DV="{0, 2, 4, 6, 8}", IV="0..8", IVmax=8, MaxLen=5, MaxN=9, profiles=["int", "float", "str", "datetime"]),
}


# ---------------------------------------------------------------------------- replay (worker side)
def _uni_parts(a, iv):
    parts = []
    for p in range(len(a) - 1):
        rows = []
        for v in sorted(iv):
            if a[p] <= v and (v < a[p + 1] or (p == len(a) - 2 and v == a[p + 1])):
                rows.append([v, 1000 * p + 2 * v])
                rows.append([v, 1000 * p + 2 * v + 1])
        parts.append(rows)
    return parts


def _count_parts(lens):
    return [[[10 * p + n, 100 * p + n] for n in range(1, lens[p] + 1)] for p in range(len(lens))]


def _frame(parts, prof, divisions=None):
    """a dask-expr frame whose partition p holds exactly parts[p] (rows [label, rid])"""
    import dask_expr as dx
    import pandas as pd

    def mk(rows):
        return pd.DataFrame({"rid": pd.array([r[1] for r in rows], dtype="int64")},
                            index=prof.index([r[0] for r in rows], name="ix"))

    frames = [mk(rows) for rows in parts]
    kw = {}
    if divisions is not None:
        kw["divisions"] = tuple(prof.enc(v) for v in divisions)
    return dx.from_map(_Part(frames), list(range(len(parts))), meta=mk([]), **kw)


class _Part:
    """partition factory (holds the prebuilt pandas partitions)"""

    def __init__(self, frames):
        self.frames = frames

    def __call__(self, p):
        return self.frames[p]


def _rows_of(pdf, prof):
    return [[prof.dec(i), int(r)] for i, r in zip(pdf.index, pdf["rid"])]


def _observe(df, new, prof, nin):
    """lower `new` (a repartition of df), abstract the layer of the repartition node, execute the graph"""
    import dask
    from dask_expr import _repartition as R

    out = {"rejected": False, "crashed": False, "err": "", "plan": {}, "outs": [], "np": -1, "div": [], "cls": ""}
    try:
        low = new.expr.lower_completely()
        root = low
        out["cls"] = type(root).__name__
        if isinstance(root, R.Repartition):
            layer = root._layer()
            plan = plans.abstract_layer(layer, root.frame._name, root._name, dec=prof.dec)
            in_name = root.frame._name
        else:
            # the request was the identity: lowering returned the input itself
            plan = {f"o{j}": {"op": "alias", "src": f"i{j}"} for j in range(low.npartitions)}
            in_name = low._name
        out["plan"] = plan
        out["np"] = int(low.npartitions)
        out["nout"] = len([k for k in plan if k.startswith("o")])
        divs = low.divisions
        out["div"] = [prof.dec(d) for d in divs] if divs[0] is not None else []
    except plans.Unabstractable:
        raise
    except (ValueError, NotImplementedError) as ex:
        out["rejected"] = True
        out["err"] = f"{type(ex).__name__}: {ex}"[:200]
        return out
    try:
        g = low.__dask_graph__()
        res = dask.get(g, low.__dask_keys__())
        out["outs"] = [_rows_of(p, prof) for p in res]
    except Exception as ex:
        out["crashed"] = True
        out["err"] = f"{type(ex).__name__}: {ex}"[:200]
    return out


def replay(case):
    """one case -> one trace record (worker process)"""
    prof = plans.Profile(case.get("profile", "int"))
    kind = case["kind"]
    tr = {"tid": case["tid"], "kind": kind, "profile": prof.name}
    if kind == "div":
        a, b, force, iv = case["a"], case["b"], case["force"], case["iv"]
        parts = _uni_parts(a, iv)
        df = _frame(parts, prof, divisions=a)
        tr.update(a=a, b=b, force=force, iv=iv, inputs={f"i{p}": parts[p] for p in range(len(parts))})
        try:
            new = df.repartition(divisions=[prof.enc(v) for v in b], force=force)
        except ValueError as ex:
            tr.update(rejected=True, crashed=False, err=str(ex)[:200], plan={"o0": {"op": "empty"}}, outs=[], np=-1, div=[], nout=0, cls="")
            return tr
        tr.update(_observe(df, new, prof, len(parts)))
        return tr
    if kind == "count":
        nin, nout, lens = case["nin"], case["nout"], case["lens"]
        parts = _count_parts(lens)
        df = _frame(parts, prof)                      # unknown divisions -> ToFewer / ToMore
        new = df.repartition(npartitions=nout)
        tr.update(nin=nin, nout=nout, lens=lens, inputs={f"i{p}": parts[p] for p in range(nin)})
        ob = _observe(df, new, prof, nin)
        ob["nout"] = nout
        tr.update(ob)
        return tr
    if kind == "interp":
        # npartitions > current with KNOWN numeric/datetime divisions: the code interpolates new divisions and
        # uses the divisions planner; validated as a "div" trace with the divisions the code chose, labels
        # re-encoded by rank (the interpolated boundaries may be fractional).
        from dask_expr import _repartition as R
        a, iv, nout = case["a"], case["iv"], case["nout"]
        probe = _frame(_uni_parts(a, iv), prof, divisions=a).repartition(npartitions=nout).expr.lower_completely()
        conc = set(prof.enc(v) for v in iv) | set(prof.enc(v) for v in a)
        if isinstance(probe, R.RepartitionDivisions):
            conc |= set(probe.new_divisions)
        rp = plans.RankProfile(sorted(conc), prof)
        a_r = [rp.dec(prof.enc(v)) for v in a]
        iv_r = [rp.dec(prof.enc(v)) for v in iv]
        parts = _uni_parts(a_r, iv_r)
        df = _frame(parts, rp, divisions=a_r)
        new = df.repartition(npartitions=nout)
        low = new.expr.lower_completely()
        tr["inputs"] = {f"i{p}": parts[p] for p in range(len(parts))}
        if isinstance(low, R.RepartitionDivisions):
            b_r = [rp.dec(v) for v in low.new_divisions]
            tr.update(kind="div", a=a_r, b=b_r, force=bool(low.force), iv=iv_r, via="interp")
            tr.update(_observe(df, new, rp, len(parts)))
            return tr
        tr.update(kind="any", nin=len(parts), via="interp")
        tr.update(_observe(df, new, rp, len(parts)))
        return tr
    if kind == "size":
        # partition_size: RepartitionSize splits big partitions evenly and concatenates neighbours up to the size
        lens = case["lens"]
        parts = [[[1000 * p + n, 1000 * p + n] for n in range(lens[p])] for p in range(len(lens))]
        df = _frame(parts, prof)
        new = df.repartition(partition_size=case["size"])
        tr.update(kind="any", nin=len(parts), via="size", lens=lens, size=case["size"],
                  inputs={f"i{p}": parts[p] for p in range(len(parts))})
        tr.update(_observe(df, new, prof, len(parts)))
        return tr
    if kind == "freq":
        # freq: RepartitionFreq derives day-aligned divisions and uses the divisions planner
        from dask_expr import _repartition as R
        a, iv = case["a"], case["iv"]
        prof = plans.Profile("datetime")
        probe = _frame(_uni_parts(a, iv), prof, divisions=a).repartition(freq=case["freq"]).expr.lower_completely()
        conc = set(prof.enc(v) for v in iv) | set(prof.enc(v) for v in a)
        if isinstance(probe, R.RepartitionDivisions):
            conc |= set(probe.new_divisions)
        rp = plans.RankProfile(sorted(conc), prof)
        a_r = [rp.dec(prof.enc(v)) for v in a]
        iv_r = [rp.dec(prof.enc(v)) for v in iv]
        parts = _uni_parts(a_r, iv_r)
        df = _frame(parts, rp, divisions=a_r)
        new = df.repartition(freq=case["freq"])
        low = new.expr.lower_completely()
        tr["inputs"] = {f"i{p}": parts[p] for p in range(len(parts))}
        tr["profile"] = rp.name
        if isinstance(low, R.RepartitionDivisions):
            b_r = [rp.dec(v) for v in low.new_divisions]
            tr.update(kind="div", a=a_r, b=b_r, force=bool(low.force), iv=iv_r, via="freq")
            tr.update(_observe(df, new, rp, len(parts)))
            return tr
        tr.update(kind="any", nin=len(parts), via="freq")
        tr.update(_observe(df, new, rp, len(parts)))
        return tr
    raise ValueError(kind)


# ---------------------------------------------------------------------------- check (driver side)
def _mc(tier):
    t = TIERS[tier]
    d = {"DV": t["DV"], "IV": t["IV"]}
    cfg = tlc.cfg(spec="Spec", constants={"MaxLen": t["MaxLen"], "MaxN": t["MaxN"]}, defs=d,
                  invariants=["TypeOK", "Rejects", "Report"])
    return tlc.run("Repartition", cfg, defs=tlc.mcdefs(d), extra='ASSUME EmitCases("cases.ndjson")',
                   outfiles=["cases.ndjson"], coverage=(tier == "thorough"), timeout=3000)


def run(tier="quick", seed=0, replay_path=None):
    chk = common.Check("C13", tier, seed)
    t = TIERS[tier]
    rnd = random.Random(seed)
    iv = list(range(t["IVmax"] + 1))
    if replay_path:
        with open(replay_path) as f:
            rp = json.load(f)
        cases = [rp["case"]]
        design_fail = {}
    else:
        # 1. design-level model check (all cases); also emits the case list
        res = _mc(tier)
        chk.add_tlc("Repartition design model (all (a,b,force), (n_in,n_out))", res)
        if res.violated:
            raise tlc.MachineryError("design model invariant violated: " + str(res.violated) + res.stdout[-2000:])
        design_fail = {}
        for clause, cj in res.tagged("DESIGN"):
            c = json.loads(cj)
            design_fail[json.dumps(_norm(c), sort_keys=True)] = clause
        chk.extra["design_level_failures"] = len(design_fail)
        chk.extra["coverage_actions"] = {k: v for k, v in res.coverage.items() if k.startswith("Repartition.")}
        base = res.outfiles["cases.ndjson"]
        cases = []
        for c in base:
            c = _norm(c)
            profs = t["profiles"] if c["kind"] == "div" else ["int"]
            if tier == "quick" and c["kind"] == "div":
                # every case in the int profile; one further dtype profile on a seed-dependent quarter of the cases
                profs = ["int"] + ([rnd.choice(["float", "str", "datetime"])] if rnd.random() < 0.25 else [])
            for prof in profs:
                cases.append(dict(c, profile=prof, iv=iv) if c["kind"] == "div" else dict(c, profile=prof))
        # interpolation path: known divisions, npartitions up (the divisions are picked by the real code)
        seen = set()
        for c in base:
            if c["kind"] == "div" and tuple(c["a"]) not in seen and c["a"][-1] != c["a"][0]:
                seen.add(tuple(c["a"]))
                for nout in range(len(c["a"]), t["MaxN"] + 1):
                    for prof in (["int", "float", "datetime"] if tier == "thorough" else [rnd.choice(["int", "float", "datetime"])]):
                        cases.append({"kind": "interp", "a": c["a"], "nout": nout, "iv": iv, "profile": prof})
        # partition_size: uneven layouts (a partition larger than the size before / after smaller ones, empty ones)
        pats = [[40, 3, 55], [3, 40, 3, 40], [60, 0, 60], [10, 10, 10, 10], [0, 70, 2, 2, 2], [25, 26, 24], [5], [80], [2, 2, 2, 90, 2]]
        if tier == "thorough":
            pats += [[rnd.randrange(0, 90) for _ in range(rnd.randrange(1, 7))] for _ in range(60)]
        for lens in pats:
            for size in (200, 400, 800, 3000):
                cases.append({"kind": "size", "lens": lens, "size": size, "profile": "int"})
        # freq: day-based divisions on a datetime index
        seen = set()
        for c in base:
            if c["kind"] == "div" and tuple(c["a"]) not in seen and c["a"][-1] != c["a"][0]:
                seen.add(tuple(c["a"]))
                for freq in ("1D", "2D", "3D"):
                    cases.append({"kind": "freq", "a": c["a"], "iv": iv, "freq": freq, "profile": "datetime"})
    for i, c in enumerate(cases):
        c["tid"] = i
    chk.evaluations = len(cases)
    chk.rule = ("cases = initial states of spec/Repartition.tla (TLC-enumerated): every (old divisions, new divisions, force) over "
                f"DV={t['DV']} up to length {t['MaxLen']} (labels over {t['IV']}, universal dataset = every admissible label twice per old partition), "
                f"every (n_in,n_out) <= {t['MaxN']} x 4 length patterns, plus the interpolating npartitions path; x index dtype profiles. "
                "non-trivial = the real plan contains at least one slice/concat/split task (not the identity) or the request must be rejected")
    chk.exhaustive = True
    # 2. replay against the real code
    common.assert_repo()
    traces = common.pmap(replay, cases)
    good = []
    for c, tr in zip(cases, traces):
        if "__machinery__" in tr:
            chk.machinery.append(tr["__machinery__"])
            continue
        good.append(tr)
        ops = {x["op"] for x in tr.get("plan", {}).values()}
        if tr.get("rejected") or ops - {"alias", "empty"}:
            chk.note_nontrivial(common.case_hash({k: v for k, v in c.items() if k not in ("tid",)}))
    if len(good) < 0.98 * len(cases):
        raise tlc.MachineryError(f"too many replay failures: {len(cases) - len(good)} of {len(cases)}: {chk.machinery[:3]}")
    # 3. validate the traces against the specification
    cfg = tlc.cfg(init="Init", next="Next", postcondition="AllConsumed")
    results, rejects, diverges, _ = tlc.validate("RepartitionTrace", good, cfg_text=cfg, chunk=400, parallel=8)
    for r in results:
        chk.add_tlc("RepartitionTrace", r)
    chk.traces = len(good)
    bycase = {c["tid"]: c for c in cases}
    model_vs_real = 0
    for tr in good:
        c = bycase[tr["tid"]]
        if tr["tid"] in rejects:
            chk.fail(rejects[tr["tid"]], _pub(c), {"err": tr.get("err"), "plan": tr.get("plan"), "outs": tr.get("outs")})
        # cross-check with the design-level model (divergence report, not a verdict)
        if c["kind"] == "div" and "via" not in tr:
            key = json.dumps(_norm({k: c[k] for k in ("kind", "a", "b", "force")}), sort_keys=True)
            if (key in design_fail) != (tr["tid"] in rejects):
                model_vs_real += 1
    chk.extra["divergences_real_plan_vs_transcription"] = len(diverges)
    chk.extra["design_model_vs_real_disagreements"] = model_vs_real
    for tr in good[:2000:700]:
        chk.sample({k: tr[k] for k in tr if k in ("kind", "a", "b", "force", "nin", "nout", "lens", "profile", "plan", "rejected", "div")})
    chk.assumptions += [
        "contracts of dask.dataframe helpers (methods.boundary_slice, methods.concat, split_evenly) as written in spec/PlanSem.tla; "
        "bound by clause PlanBinding (real per-partition outputs == PlanSem of the real plan)",
        "partitions of a frame with known divisions hold only labels inside their division range (universal dataset argument)",
    ]
    return chk.finish()


def _norm(c):
    c = dict(c)
    for k in ("a", "b", "lens"):
        if k in c:
            c[k] = list(c[k])
    return c


def _pub(c):
    return {k: v for k, v in c.items() if k not in ("tid", "iv")}

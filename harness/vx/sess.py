"""Facts about a collection used by C15 (session history) and C16 (serialization): name, schema, npartitions,
divisions, concatenated result, per-partition lengths - all JSON-able, comparable across processes."""
from __future__ import annotations

import json

from . import rel, walk

NULL = walk.NULL


def facts(coll, *, compute=True):
    """-> dict(name, schema, np, div_known, div, result (raw table or err), lens)"""
    import dask
    out = {"name": coll._name, "err": "", "plan": ""}
    try:
        out["schema"] = walk.schema_of(coll._meta)
        out["np"] = int(coll.npartitions)
        divs = coll.divisions
        known = divs[0] is not None and not any(isinstance(d, str) for d in divs)
        out["div_known"] = bool(known)
        out["div"] = [walk._enc_label(d) for d in divs] if known else []
    except Exception as ex:
        out["err"] = "meta:" + type(ex).__name__ + ":" + str(ex)[:120]
        out.update(schema={}, np=-1, div_known=False, div=[])
    if compute:
        try:
            low = coll.optimize().expr
            out["plan"] = low._name
            parts = dask.get(low.__dask_graph__(), low.__dask_keys__())
            out["lens"] = [int(len(p)) if hasattr(p, "__len__") else 1 for p in parts]
            import pandas as pd
            if hasattr(parts[0], "index") and len(parts) > 1:
                res = pd.concat(list(parts))
            else:
                res = parts[0]
            out["result"] = {"ok": True, "raw": rel.raw_table(res)}
        except Exception as ex:
            out["lens"] = []
            out["result"] = {"ok": False, "err": type(ex).__name__, "msg": str(ex)[:150]}
    return out


def finalize_pair(a, b):
    """encode the two results with one scale (mutates)"""
    rs = [x["result"] for x in (a, b) if "result" in x]
    rel.finalize(rs)
    for r in rs:
        r.pop("msg", None)

"""C11 - selecting partitions or leading/trailing rows commutes with the computation.

spec/PartitionsOps.tla (expected value of every selection), spec/Partitions.tla (design-level model of the push-down rule;
its initial states (operator chain kinds x selection) are the abstract cases), spec/PartitionsTrace.tla (conformance).
"""
from __future__ import annotations

import json
import os
import random
import shutil
import tempfile

from . import common, tlc

TIERS = {
    "quick": dict(NP=4, MaxChain=2, sources_per_case=2, head_ns=[1, 3, 7], tails=[2, 9]),
    "thorough": dict(NP=4, MaxChain=3, sources_per_case=6, head_ns=[0, 1, 3, 7, 30], tails=[1, 2, 9]),
}

SOURCES = ["from_pandas", "from_map", "from_map_div", "from_delayed", "persist", "from_array", "read_csv",
           "read_parquet", "read_parquet_arrow", "read_parquet_proj", "timeseries", "legacy"]

# concrete operators per abstract kind of spec/Partitions.tla
VARIANTS = {
    "pos": ["add1", "assign", "filter", "mapparts", "proj"],
    "bcast": ["addmax", "merge_small", "mapparts_small"],
    "shift": ["loc_from"],
    "wide": ["cumsum", "shift1"],
    "filt": ["shuffle_tasks", "shuffle_disk", "bcast_join"],
}


def _inc(df):
    return df.assign(v=df.v + 1)


def _addw(df, small):
    return df.assign(v=df.v + len(small))


def _base_pdf(nrows=26):
    import numpy as np
    import pandas as pd
    return pd.DataFrame({"k": np.arange(nrows) % 5, "v": (np.arange(nrows) * 7) % 11, "rid": np.arange(nrows)},
                        index=pd.Index(np.arange(100, 100 + nrows), name="ix"))


class _Pieces:
    def __init__(self, frames):
        self.frames = frames

    def __call__(self, i):
        return self.frames[i]


def build_source(name, scratch, NP=4):
    import dask
    import dask_expr as dx
    import numpy as np
    import pandas as pd
    pdf = _base_pdf()
    cuts = np.linspace(0, len(pdf), NP + 1).astype(int)
    pieces = [pdf.iloc[a:b] for a, b in zip(cuts[:-1], cuts[1:])]
    if name == "from_pandas":
        return dx.from_pandas(pdf, npartitions=NP)
    if name == "from_map":
        return dx.from_map(_Pieces(pieces), list(range(NP)), meta=pdf.iloc[:0])
    if name == "from_map_div":
        divs = tuple(int(p.index[0]) for p in pieces) + (int(pieces[-1].index[-1]),)
        return dx.from_map(_Pieces(pieces), list(range(NP)), meta=pdf.iloc[:0], divisions=divs)
    if name == "from_delayed":
        return dx.from_delayed([dask.delayed(p) for p in pieces], meta=pdf.iloc[:0])
    if name == "persist":
        return dx.from_pandas(pdf, npartitions=NP).persist(scheduler="sync")
    if name == "legacy":
        return dx.from_legacy_dataframe(dx.from_pandas(pdf, npartitions=NP).to_legacy_dataframe())
    if name == "from_array":
        arr = pdf[["k", "v", "rid"]].to_numpy()
        return dx.from_array(arr, chunksize=int(np.ceil(len(pdf) / NP)), columns=["k", "v", "rid"])
    if name == "read_csv":
        for i, p in enumerate(pieces):
            p.reset_index().to_csv(os.path.join(scratch, f"part{i}.csv"), index=False)
        return dx.read_csv(os.path.join(scratch, "part*.csv"))[["k", "v", "rid"]]
    if name == "read_parquet_proj":       # column-projected multi-file read: the reader fuses several files into one task
        return build_source("read_parquet", scratch, NP)[["k", "v"]]
    if name in ("read_parquet", "read_parquet_arrow"):
        d = os.path.join(scratch, name)
        os.makedirs(d, exist_ok=True)
        for i, p in enumerate(pieces):
            p.to_parquet(os.path.join(d, f"part.{i}.parquet"))
        kw = {"filesystem": "arrow"} if name.endswith("arrow") else {}
        return dx.read_parquet(d, **kw)
    if name == "timeseries":
        ts = dx.datasets.timeseries(start="2000-01-01", end="2000-01-05", freq="6h", partition_freq="1d", seed=7)
        return ts[["id", "x"]].rename(columns={"id": "k", "x": "v"})
    raise ValueError(name)


def apply_op(x, op, NP):
    import dask_expr as dx
    import pandas as pd
    if op == "add1":
        return x + 1
    if op == "assign":
        return x.assign(z=x.v * 2)
    if op == "filter":
        return x[x.k != 3]
    if op == "mapparts":
        return x.map_partitions(_inc)
    if op == "proj":
        return x[["v", "k"]]
    if op == "addmax":
        return x + x.k.max()
    if op == "merge_small":
        small = dx.from_pandas(pd.DataFrame({"k": [0, 1, 2, 3, 4], "w": [10, 11, 12, 13, 14]}), npartitions=1)
        return x.merge(small, on="k", how="inner")
    if op == "mapparts_small":
        small = dx.from_pandas(pd.DataFrame({"q": [1, 2, 3]}), npartitions=1)
        return x.map_partitions(_addw, small, meta=x._meta)
    if op == "loc_from":
        divs = x.divisions
        if divs[0] is None or len(divs) < 3:
            return x.loc[:]
        return x.loc[divs[1]:]
    if op == "cumsum":
        return x.cumsum()
    if op == "shift1":
        return x.shift(1)
    if op == "shuffle_tasks":
        return x.shuffle("k", shuffle_method="tasks", max_branch=2)
    if op == "shuffle_disk":
        return x.shuffle("k", shuffle_method="disk")
    if op == "bcast_join":
        other = dx.from_pandas(pd.DataFrame({"k": [0, 1, 2, 3, 4, 0], "w": [10, 11, 12, 13, 14, 15]}), npartitions=2)
        return x.merge(other, on="k", how="inner", broadcast=True, shuffle_method="tasks")
    raise ValueError(op)


def _deep(e):
    """walk() that also looks inside the member list of Fused groups"""
    from dask_expr._core import Expr
    seen, stack = set(), [e]
    while stack:
        n = stack.pop()
        if n._name in seen:
            continue
        seen.add(n._name)
        yield n
        for o in n.operands:
            if isinstance(o, Expr):
                stack.append(o)
            elif isinstance(o, list):
                stack.extend(x for x in o if isinstance(x, Expr))


def _has_fused_io(e):
    return any(type(x).__name__ in ("FusedIO", "FusedParquetIO") for x in _deep(e))


def _fused_io_under_selection(coll):
    """True when, in the optimized plan, a partition selection (a Partitions node or an operator carrying a
    _partitions filter) sits ABOVE a multi-file fused read instead of inside it: the selection then counts the
    fused buckets, not the logical partitions (known finding F20)."""
    roots = [coll.optimize().expr]
    try:
        # compute() optimizes the collection wrapped in a repartition to one partition: other rewrites fire (a column selection
        # reaches the reader, which then fuses files) - head / tail results are obtained that way
        roots.append(coll.repartition(npartitions=1).optimize().expr)
    except Exception:
        pass
    for root in roots:
        for e in _deep(root):
            nm = type(e).__name__
            if nm in ("FusedIO", "FusedParquetIO"):
                continue
            selecting = nm == "Partitions" or ("_partitions" in getattr(e, "_parameters", []) and e.operand("_partitions") is not None)
            if selecting and any(_has_fused_io(d) for d in e.dependencies()):
                return True
    return False


def _safe_flag(mk, unselected=None):
    try:
        return _fused_io_under_selection(mk())
    except Exception:
        # the selection does not even optimize: attribute it to F20 only if the unselected plan reads through a fused IO
        try:
            return unselected is not None and _has_fused_io(unselected.optimize().expr)
        except Exception:
            return False


def _parts_of(coll, reference=False):
    """per-partition pandas objects of a collection.  reference=True: the collection lowered WITHOUT optimization
    (the logical partitions the user's partition numbers refer to); else through its optimized graph."""
    import dask
    if reference:
        low = coll.expr.lower_completely()
        return list(dask.get(low.__dask_graph__(), low.__dask_keys__()))
    o = coll.optimize()
    return list(dask.get(o.__dask_graph__(), o.__dask_keys__()))


class _Numbering:
    def __init__(self, use_index=True):
        self.m = {}
        self.use_index = use_index

    def rows(self, pobj):
        import pandas as pd
        if isinstance(pobj, pd.Series):
            pobj = pobj.to_frame("__s__")
        out = []
        vals = pobj.to_numpy()
        for i, r in zip(pobj.index if self.use_index else [0] * len(pobj), vals):
            key = repr((i, tuple("nan" if x != x else (round(float(x), 9) if isinstance(x, float) else x) for x in r.tolist())))
            out.append(self.m.setdefault(key, len(self.m)))
        return out


def _deterministic_chain(ops):
    """keep the VALUES of a chain a function of its input: (1) an order-sensitive operator (cumsum, shift) after an operator
    that leaves the row order inside partitions unspecified (disk shuffle, joins) computes other values on every run;
    (2) frame[mask] / assign over the output of map_partitions(f, other_frame) on a source with unknown divisions is aligned
    through a disk shuffle by index (the two operands are not recognised as co-aligned), same effect - and with the
    duplicate index labels of read_csv the alignment itself is ambiguous (see notes/open_observations.md)"""
    out = []
    unordered = aligned = False
    for o in ops:
        if o in ("cumsum", "shift1") and unordered:
            o = "add1"
        if o in ("assign", "filter") and aligned:
            o = "add1" if o == "assign" else "proj"
        if o in ("shuffle_disk", "bcast_join", "merge_small"):
            unordered = True
        if o == "mapparts_small":
            aligned = True
        out.append(o)
    return out


def replay_group(group):
    """group = {source, chain (ops), sels: [...], heads: [...], tails: [...], tid0}; returns list of traces"""
    scratch = tempfile.mkdtemp(prefix="verif_c11.", dir=os.environ.get("VERIF_SCRATCH"))
    try:
        return _replay_group(group, scratch)
    finally:
        shutil.rmtree(scratch, ignore_errors=True)


def _replay_group(group, scratch):
    NP = group["NP"]
    base = {"source": group["source"], "ops": group["ops"], "kinds": group["kinds"]}
    traces = []
    # row order inside a partition is unspecified below a disk shuffle and after joins
    ordered = not any(o in ("shuffle_disk", "bcast_join", "merge_small") for o in group["ops"])
    # the index labels a merge on columns produces restart per chunk: not part of the identity of a row
    num = _Numbering(use_index=not any(o in ("merge_small", "bcast_join") for o in group["ops"]))
    full_err, full, x = False, [], None
    try:
        x = build_source(group["source"], scratch, NP)
        for op in group["ops"]:
            x = apply_op(x, op, NP)
        full = [num.rows(p) for p in _parts_of(x, reference=True)]
    except Exception as ex:
        full_err = True
        base["full_error"] = f"{type(ex).__name__}: {ex}"[:160]
    tid = group["tid0"]

    def emit(kind, **kw):
        nonlocal tid
        t = dict(base, tid=tid, kind=kind, full=full, full_err=full_err, ordered=ordered, sorted_head=False,
                 err=False, errmsg="", got=[], np=0, P=[], n=0, k=0)
        t.update(kw)
        traces.append(t)
        tid += 1

    for P in group["sels"]:
        if full_err:
            emit("sel", P=P)
            continue
        try:
            how = "partitions"
            if len(P) == 1 and (tid % 2 == 0):
                sel = x.get_partition(P[0])
                how = "get_partition"
            else:
                sel = x.partitions[P]
            got = [num.rows(p) for p in _parts_of(sel)]
            emit("sel", P=P, got=got, np=int(sel.npartitions), how=how, fused_io_under_selection=_safe_flag(lambda: sel, x))
        except Exception as ex:
            emit("sel", P=P, err=True, errmsg=f"{type(ex).__name__}: {ex}"[:160], fused_io_under_selection=_safe_flag(lambda: x.partitions[P], x))
    if not full_err and group.get("delayed"):
        try:
            import dask
            got = [num.rows(p) for p in dask.compute(*x.to_delayed(), scheduler="sync")]
            emit("sel", P=list(range(len(full))), got=got, np=len(full), how="to_delayed")
        except Exception as ex:
            emit("sel", P=list(range(len(full))), err=True, errmsg=f"{type(ex).__name__}: {ex}"[:160], how="to_delayed")
    import warnings
    for n, k in group["heads"]:
        if full_err:
            emit("head", n=n, k=k)
            continue
        try:
            with warnings.catch_warnings():
                warnings.simplefilter("ignore")
                got = x.head(n, npartitions=k, compute=False)
                emit("head", n=n, k=k, got=[num.rows(got.compute(scheduler="sync"))], fused_io_under_selection=_safe_flag(lambda: got, x))
        except Exception as ex:
            emit("head", n=n, k=k, err=True, errmsg=f"{type(ex).__name__}: {ex}"[:160])
    for n in group["tails"]:
        if full_err:
            emit("tail", n=n)
            continue
        try:
            tl = x.tail(n, compute=False)
            emit("tail", n=n, got=[num.rows(tl.compute(scheduler="sync"))], fused_io_under_selection=_safe_flag(lambda: tl, x))
        except Exception as ex:
            emit("tail", n=n, err=True, errmsg=f"{type(ex).__name__}: {ex}"[:160])
    return traces


def run(tier="quick", seed=0, replay_path=None):
    chk = common.Check("C11", tier, seed)
    t = TIERS[tier]
    rnd = random.Random(seed)
    NP = t["NP"]
    groups = []
    if replay_path:
        with open(replay_path) as f:
            c = json.load(f)["case"]
        groups.append({"source": c["source"], "ops": c["ops"], "kinds": c["kinds"], "NP": NP,
                       "sels": [c["P"]] if c["kind"] == "sel" else [], "delayed": c.get("how") == "to_delayed",
                       "heads": [(c["n"], c["k"])] if c["kind"] == "head" else [], "tails": [c["n"]] if c["kind"] == "tail" else []})
    else:
        # design-level model: the rule as coded (Faithful) and the rule restricted to positional operators
        for faithful in ("TRUE", "FALSE"):
            cfg = tlc.cfg(spec="Spec", constants={"NP": NP, "MaxChain": t["MaxChain"], "Faithful": faithful}, invariants=["Report"])
            res = tlc.run("Partitions", cfg, extra='ASSUME ndJsonSerialize("cases.ndjson", SetToSeq({[chain |-> c, P |-> p] : c \\in Chains, p \\in Sels}))' if faithful == "TRUE" else None,
                          outfiles=["cases.ndjson"], coverage=(tier == "thorough"))
            chk.add_tlc(f"Partitions design model Faithful={faithful}", res)
            if faithful == "TRUE":
                abstract = res.outfiles["cases.ndjson"]
                chk.extra["design_level_failures_rule_as_coded"] = len(res.tagged("DESIGN"))
            else:
                chk.extra["design_level_failures_sound_rule"] = len(res.tagged("DESIGN"))
                if res.tagged("DESIGN"):
                    raise tlc.MachineryError("the sound push-down rule violates Commutes in the model")
        bychain = {}
        for a in abstract:
            bychain.setdefault(tuple(a["chain"]), []).append(list(a["P"]))
        for chain, sels in sorted(bychain.items()):
            if len(chain) <= 1:
                srcs = list(SOURCES)                       # every source sees every selection under the short chains
            else:
                srcs = ["from_pandas"] + rnd.sample(SOURCES[1:], t["sources_per_case"] - 1)
            for src in srcs:
                ops = [rnd.choice(VARIANTS[kd]) for kd in chain]
                if src == "timeseries" and any(o in ("merge_small", "bcast_join") for o in ops):
                    ops = [o if o not in ("merge_small", "bcast_join") else "addmax" for o in ops]
                ops = _deterministic_chain(ops)
                heads = [(n, k) for n in t["head_ns"] for k in (1, 2, -1)] + [(3, NP + 3)]
                groups.append({"source": src, "ops": ops, "kinds": list(chain), "NP": NP, "sels": sels + [[NP + 5]],
                               "delayed": True, "heads": heads, "tails": t["tails"]})
    tid = 0
    for g in groups:
        g["tid0"] = tid
        tid += len(g["sels"]) + len(g["heads"]) + len(g["tails"]) + (1 if g.get("delayed") else 0)
    common.assert_repo()
    res = common.pmap(replay_group, groups, chunk=1)
    traces = []
    for g, r in zip(groups, res):
        if isinstance(r, dict) and "__machinery__" in r:
            chk.machinery.append(r["__machinery__"] + " :: " + json.dumps({k: g[k] for k in ("source", "ops")}))
            continue
        traces.extend(r)
    if len(chk.machinery) > 0.03 * len(groups):
        raise tlc.MachineryError(f"too many replay failures: {chk.machinery[:3]}")
    # renumber tids consecutively (errors in the full computation change nothing)
    for i, tr in enumerate(traces):
        tr["tid"] = i
    chk.evaluations = len(traces)
    chk.rule = ("abstract cases = initial states of spec/Partitions.tla (every operator-kind chain of length <= %d over {pos,bcast,shift,wide,filt} x selection "
                "in {singles, reordered, repeated, prefix}); each chain is made concrete with seeded operator variants on from_pandas plus %d other seeded sources out of %s; "
                "per (source, chain): all selections, an out-of-range selection, to_delayed, head(n,k) grid incl. k > npartitions, tail(n). "
                "non-trivial = chain non-empty or source is not from_pandas, and the unselected collection computed" % (t["MaxChain"], t["sources_per_case"] - 1, SOURCES))
    pub = lambda tr: {k: tr[k] for k in ("source", "ops", "kinds", "kind", "P", "n", "k", "how", "fused_io_under_selection") if k in tr}
    for tr in traces:
        if not tr["full_err"] and (tr["ops"] or tr["source"] != "from_pandas"):
            chk.note_nontrivial(common.case_hash(pub(tr)))
    cfg = tlc.cfg(init="Init", next="Next", postcondition="AllConsumed")
    slim = [{k: v for k, v in tr.items() if k not in ("errmsg", "full_error", "source", "ops", "kinds", "how", "fused_io_under_selection")} for tr in traces]
    results, rejects, _, _ = tlc.validate("PartitionsTrace", slim, cfg_text=cfg, chunk=600, parallel=8)
    for r in results:
        chk.add_tlc("PartitionsTrace", r)
    chk.traces = len(traces)
    nfull_err = 0
    for tr in traces:
        if tr["full_err"]:
            nfull_err += 1
        if tr["tid"] in rejects:
            chk.fail(rejects[tr["tid"]], pub(tr), {"errmsg": tr.get("errmsg"), "full": tr["full"], "got": tr["got"]})
    chk.extra["unselected_collection_not_computable"] = nfull_err
    for tr in traces[5:4000:1500]:
        chk.sample(dict(pub(tr), full=tr["full"], got=tr["got"]))
    chk.assumptions += [
        "the reference partitions are those of the unselected collection executed through its own optimized graph",
        "row order inside partitions is compared exactly except below a disk shuffle (partd append order is unspecified)",
    ]
    return chk.finish()

"""C16 - collections survive serialization to another process.

spec/Session.tla (process-wide planner state; a fresh process starts with empty tables and caches), spec/SessionTrace.tla.
TLC-generated programs in three forms (as built, optimize(), lower_completely()) plus persisted collections that were
already used are pickled, loaded by fresh interpreters with another PYTHONHASHSEED (optimized forms first, so that no
other form warms a cache for them), and name / schema / npartitions / divisions / result / partition lengths are
compared with the originating process.
"""
from __future__ import annotations

import base64
import json
import os
import pickle
import random
import shutil
import subprocess
import sys
import tempfile

from . import common, rel, sess, tlc

TIERS = {
    "quick": dict(sample=110, sim_num=40, sim_depth=4, chunks=10, big=10),
    "thorough": dict(sample=1500, sim_num=120, sim_depth=4, chunks=16, big=60),
}
FORMS = ["optimized", "lowered", "logical"]


def build(case):
    # "big": enough rows per partition and distinct key values for the planner's quantile SAMPLING to matter
    tabs = rel.make_tables(case["dseed"], nrows=(240, 40), hi=90) if case.get("big") else rel.make_tables(case["dseed"])
    env = rel.dask_sources(tabs, {"T1": ("from_pandas", case["np1"]), "T2": ("from_pandas", case["np2"])})
    coll = rel.build(case["q"], env, "dask")
    if case.get("persisted"):
        coll = coll.persist(scheduler="sync")
        coll.compute(scheduler="sync")          # the persisted collection has been used before it is shipped
    return coll


def data_token_unstable(coll):
    """diagnostic for F47: does dask's own token of a persisted partition change when the partition is pickled (a pandas
    block that is a strided view pickles in-band, a fresh copy out-of-band, and dask tokenizes pandas objects by pickling)?"""
    from dask.base import tokenize
    from dask_expr.io.io import FromGraph
    for e in coll.expr.walk():
        if isinstance(e, FromGraph):
            for v in e.operand("layer").values():
                try:
                    if tokenize(v) != tokenize(pickle.loads(pickle.dumps(v))):
                        return True
                except Exception:
                    return True
    return False


def forms_of(coll, persisted=False):
    from dask_expr._collection import new_collection
    out = {"logical": coll}
    try:
        out["optimized"] = coll.optimize()
    except Exception:
        pass
    try:
        out["lowered"] = new_collection(coll.expr.lower_completely())
    except Exception:
        pass
    return out


def parent_side(chunk):
    """build, take the originating process' facts, pickle; -> list of records with blobs"""
    import cloudpickle
    out = []
    for case in chunk:
        try:
            coll = build(case)
        except Exception as ex:
            continue
        unstable = data_token_unstable(coll) if case.get("persisted") else False
        for form, c in forms_of(coll).items():
            rec = {"cid": case["cid"], "form": form, "data_token_unstable": unstable}
            try:
                rec["blob"] = base64.b64encode(cloudpickle.dumps(c)).decode()
            except Exception as ex:
                rec["pickle_err"] = f"{type(ex).__name__}: {ex}"[:150]
                out.append(rec)
                continue
            rec["alone"] = sess.facts(c)
            out.append(rec)
    return out


def child_main(path):
    import warnings
    warnings.filterwarnings("ignore")
    common._init_worker()
    import cloudpickle
    with open(path) as f:
        recs = json.load(f)
    order = {"optimized": 0, "lowered": 1, "logical": 2}
    recs.sort(key=lambda r: order[r["form"]])          # forms that rely on caches first: nothing warms them
    out = []
    for r in recs:
        try:
            c = cloudpickle.loads(base64.b64decode(r["blob"]))
            out.append({"cid": r["cid"], "form": r["form"], "here": sess.facts(c)})
        except Exception as ex:
            out.append({"cid": r["cid"], "form": r["form"], "here": {"name": "", "err": "load:" + type(ex).__name__ + ":" + str(ex)[:120], "schema": {}, "np": -1,
                                                                     "div_known": False, "div": [], "lens": [], "result": {"ok": False, "err": type(ex).__name__}}})
    print("FACTS " + json.dumps(out))


def run_child(recs, hashseed):
    scratch = tempfile.mkdtemp(prefix="verif_c16.")
    try:
        p = os.path.join(scratch, "recs.json")
        with open(p, "w") as f:
            json.dump([{k: r[k] for k in ("cid", "form", "blob")} for r in recs], f)
        env = dict(os.environ, PYTHONHASHSEED=str(hashseed), DASK_EXPR_VERIF="1", PYTHONPATH=os.path.join(common.ROOT, "harness"))
        r = subprocess.run([sys.executable, "-m", "vx.c16", "--child", p], env=env, capture_output=True, text=True, timeout=3000)
        for ln in r.stdout.splitlines():
            if ln.startswith("FACTS "):
                return json.loads(ln[6:])
        raise tlc.MachineryError("C16 child failed: " + r.stderr[-1500:])
    finally:
        shutil.rmtree(scratch, ignore_errors=True)


def run(tier="quick", seed=0, replay_path=None):
    import concurrent.futures as cf
    chk = common.Check("C16", tier, seed)
    t = TIERS[tier]
    rnd = random.Random(seed)
    for fa in ("TRUE", "FALSE"):
        d = {"Queries": "1..4"}
        cfg = tlc.cfg(spec="Spec", constants={"Cap": 2, "KeyComplete": "TRUE", "Faithful": fa}, defs=d, invariants=["Transparent", "Bounded"])
        r = tlc.run("Session", cfg, defs=tlc.mcdefs(d))
        chk.add_tlc(f"Session model Faithful={fa}", r)
        chk.extra[f"session_model_Faithful_{fa}_violates"] = r.violated
    if replay_path:
        with open(replay_path) as f:
            c = json.load(f)["case"]
        cases = [{k: c[k] for k in ("q", "sc", "dseed", "np1", "np2", "persisted", "big") if k in c}]
    else:
        qs = rel.gen_queries("general", 2, seed=seed, sample=t["sample"], sim_num=t["sim_num"], sim_depth=t["sim_depth"], chk=chk,
                             keep=lambda c: c["q"]["op"] in ("setindex", "sort") or (c["depth"] == 2 and c["q"]["c"][0]["op"] in ("setindex", "sort")))
        qs = [c for c in qs if c["depth"] >= 1]
        cases = [{"q": c["q"], "sc": c["sc"], "dseed": rnd.randrange(5), "np1": rnd.choice([2, 3]), "np2": rnd.choice([1, 2])} for c in qs]
        cases += [dict(c, persisted=True) for c in cases[:40] if c["sc"]["kind"] != "scalar"]
        sorts = [c for c in cases if not c.get("persisted") and any(o in ("setindex", "sort") for o in rel.ops_of(c["q"])) and "merge" not in rel.ops_of(c["q"])]
        cases += [dict(c, big=True, np1=rnd.choice([5, 6, 8])) for c in sorts[:t["big"]]]
    for i, c in enumerate(cases):
        c["cid"] = i
    common.assert_repo()
    chunks = [cases[i::t["chunks"]] for i in range(t["chunks"])]
    parents = common.pmap(parent_side, [ch for ch in chunks if ch], chunk=1)
    jobs = [recs for recs in parents if isinstance(recs, list) and recs]
    shipped = [[r for r in recs if "blob" in r] for recs in jobs]
    with cf.ThreadPoolExecutor(max_workers=12) as ex:
        kids = list(ex.map(lambda rs: run_child(rs, 4242), shipped))
    here = {}
    for k in kids:
        for r in k:
            here[(r["cid"], r["form"])] = r["here"]
    bycid = {c["cid"]: c for c in cases}
    lines = []
    unpicklable = 0
    for recs in jobs:
        for r in recs:
            if "pickle_err" in r:
                unpicklable += 1
                continue
            h = here.get((r["cid"], r["form"]))
            if h is None:
                continue
            a = r["alone"]
            sess.finalize_pair(a, h)
            c = bycid[r["cid"]]
            lines.append({"tid": len(lines), "cid": r["cid"], "form": r["form"], "alone": a, "here": h, "ord": bool(c["sc"]["ord"]), "idx": bool(c["sc"]["idx"]),
                          "data_token_unstable": bool(r.get("data_token_unstable")), "check_name": True, "check_plan": True, "spine_here": [], "spine_alone": [], "check_lens": bool(c["sc"]["ord"])})
    chk.extra["not_picklable"] = unpicklable
    chk.evaluations = len(lines)
    slim = [{k: v for k, v in ln.items() if k not in ("cid", "form", "data_token_unstable")} for ln in lines]
    cfg = tlc.cfg(init="Init", next="Next", postcondition="AllConsumed")
    results, rejects, _, _ = tlc.validate("SessionTrace", slim, cfg_text=cfg, chunk=200, parallel=8)
    for r in results:
        chk.add_tlc("SessionTrace", r)
    chk.traces = len(lines)
    for ln in lines:
        c = bycid[ln["cid"]]
        chk.note_nontrivial(common.case_hash([c["q"], ln["form"], c.get("persisted", False)]))
        if ln["tid"] in rejects:
            chk.fail(rejects[ln["tid"]], {"q": c["q"], "sc": c["sc"], "dseed": c["dseed"], "np1": c["np1"], "np2": c["np2"], "persisted": c.get("persisted", False), "big": c.get("big", False),
                                          "form": ln["form"], "data_token_unstable": ln["data_token_unstable"], "ops": rel.ops_of(c["q"]), "errmsg": ln["here"].get("err", "") or ln["here"]["result"].get("err", "")},
                     {"here_name": ln["here"].get("name"), "alone_name": ln["alone"].get("name"), "here_div": ln["here"].get("div"), "alone_div": ln["alone"].get("div"),
                      "here_lens": ln["here"].get("lens"), "alone_lens": ln["alone"].get("lens")})
    chk.rule = ("programs = TLC-generated queries (QueryGen general; every program ending in, or one operator above, set_index / sort_values is included), each as built, optimized and lowered, "
                "plus persisted-and-used collections; pickled with cloudpickle, loaded in fresh interpreters with another PYTHONHASHSEED (optimized forms first). "
                "non-trivial = every shipped (program, form)")
    for ln in lines[3:900:300]:
        chk.sample({"q": bycid[ln["cid"]]["q"], "form": ln["form"], "here_name": ln["here"].get("name"), "alone_name": ln["alone"].get("name"), "div": ln["alone"].get("div")})
    chk.assumptions += ["partition lengths are compared only where the query defines the row order (hash-partitioned results may legitimately be laid out differently)",
                        "cloudpickle is used so that the harness' partition factories and lambdas travel; expressions themselves reduce to (type, operands)"]
    return chk.finish()


if __name__ == "__main__":
    if len(sys.argv) >= 3 and sys.argv[1] == "--child":
        child_main(sys.argv[2])

"""C15 - planner caches are transparent: results are independent of session history.

spec/Hist.tla models one Python process (bounded LRU caches, the table of live expressions with what they memoised,
the dataset on disk, a task that can be made to fail); TLC checks Transparent on it (and that each of the three
anchored mechanisms is necessary) and its behaviours (-simulate) are the histories replayed here:

  Build q / Plan q (optimize + ask the plan for divisions) / Observe q / Discard q (del + gc) / FailPlan q (the same
  query while one of its tasks raises) / RewriteDask, RewriteOutside (the parquet dataset gets new contents)

over a pool of 16 concrete queries per history: 6 twin pairs that differ in ONE field of a cache key (sort direction,
npartitions, upsample, the partition selection, the frame), two of them over a source whose tasks can be made to fail,
and 2 twin pairs reading the rewritable parquet dataset.  Each history runs in its own process; every observation is
compared (TLC, spec/SessionTrace.tla) with the same query built alone in a FRESH process - a grandchild forked from a
zygote that was forked before the history process built anything.  The LRU events recorded by the hooks are validated
against the LRU of Hist.tla (spec/LruTrace.tla).
"""
from __future__ import annotations

import gc
import json
import multiprocessing as mp
import os
import random
import shutil
import sys
import tempfile
import traceback

from . import common, rel, sess, tlc

TIERS = {
    "quick": dict(histories=22, steps=60, generic=60, procs=15),
    "thorough": dict(histories=360, steps=110, generic=400, procs=15),
}
NQ = 16
PQ = [13, 14, 15, 16]
GATED = [1, 2, 3, 4]

GATE = {"fail": False}


def gate(df):
    """partition-wise identity whose tasks can be made to fail (all of them, or only the one holding the largest label)"""
    mode = GATE["fail"]
    if mode == "all" or (mode == "last" and len(df) and df.index.max() >= GATE.get("top", 10 ** 9)):
        raise RuntimeError("injected task failure")
    return df


# ------------------------------------------------------------------------------------------------ data and sources
def tables(dseed, presorted):
    return rel.make_tables(dseed, nrows=(14, 7), presorted=presorted, hi=6)


def pq_frame(dseed, ver):
    """contents of the dataset at version `ver`: same schema, same number of files, other rows"""
    t = rel.make_tables(1000 * dseed + ver, nrows=(12 + (ver % 3), 7), hi=5)["T1"]
    return t


def pq_write(path, dseed, ver, how, nfiles=3):
    import dask_expr as dx
    import pandas as pd
    pdf = pq_frame(dseed, ver)
    if how == "dask":
        dx.from_pandas(pdf, npartitions=nfiles, sort=True).to_parquet(path, overwrite=True, write_index=True)
    else:
        # a writer outside dask: same file names, same schema, other contents
        os.makedirs(path, exist_ok=True)
        n = len(pdf)
        cuts = [round(i * n / nfiles) for i in range(nfiles + 1)]
        for i in range(nfiles):
            pdf.iloc[cuts[i]:cuts[i + 1]].to_parquet(os.path.join(path, f"part.{i}.parquet"), engine="pyarrow")


def _pq_leaf(q, env):
    import dask_expr as dx
    kw = dict(q.get("rkw", {}))
    if "filters" in kw:
        kw["filters"] = [tuple(f) for f in kw["filters"]]
    return dx.read_parquet(env["__pq__"], **kw)


def _repsize(q, x, env):
    return x.repartition(partition_size=q["size"])


def _mapgate(q, x, env):
    return x.map_partitions(gate, meta=x._meta)


rel.LEAF_EXT["pq"] = _pq_leaf
rel.NODE_EXT["repsize"] = _repsize


def sources(job):
    import dask_expr as dx
    tabs = tables(job["dseed"], job["presorted"])
    t1 = dx.from_pandas(tabs["T1"], npartitions=job["np1"], sort=True)
    t2 = dx.from_pandas(tabs["T2"], npartitions=job["np2"], sort=True)
    g1 = t1.map_partitions(gate, meta=t1._meta)
    GATE["top"] = int(tabs["T1"].index.max())
    return {"T1": t1, "T2": t2, "G1": g1, "__pq__": job["pq_path"]}


# ------------------------------------------------------------------------------------------------ the pool of queries
def S(t):
    return {"op": "src", "t": t}


def N(op, child, **kw):
    return dict({"op": op, "c": [child]}, **kw)


def twin_pairs(rnd, src, np1, generic):
    """candidate twin pairs over source `src`: each pair differs in one field a cache key must contain"""
    col = rnd.choice(["a", "k", "b"])
    col2 = rnd.choice([c for c in ["a", "k", "b"] if c != col])
    i, j = rnd.sample(range(np1), 2)
    base = rnd.choice([S(src), N("elem", S(src), f="add1"), N("filter", S(src), pred={"p": "cmp", "col": "b", "f": "ge", "v": 1})])
    out = [
        ("sort-direction", N("sort", base, by=[col], asc=True), N("sort", base, by=[col], asc=False)),
        ("sort-direction-index", N("sort", N("resetindex", S(src), drop=False), by=["ix"], asc=True), N("sort", N("resetindex", S(src), drop=False), by=["ix"], asc=False)),
        ("sort-npartitions", N("sort", base, by=[col], asc=True), N("sort", base, by=[col], asc=True, kw={"npartitions": 2})),
        ("setindex-npartitions", N("setindex", base, col=col), N("setindex", base, col=col, kw={"npartitions": 2})),
        ("setindex-upsample", N("setindex", base, col=col), N("setindex", base, col=col, kw={"upsample": 0.4})),
        ("setindex-column", N("setindex", base, col=col), N("setindex", base, col=col2)),
        ("setindex-frame", N("setindex", S(src), col=col), N("setindex", N("elem", S(src), f="neg"), col=col)),
        ("sort-then-setindex", N("sort", base, by=[col], asc=True), N("setindex", base, col=col)),
        # equally many partitions selected, first versus last: from_pandas gives them different row counts
        ("len-selection", N("len", N("col", N("parts", S(src), P=[0]), col="a")), N("len", N("col", N("parts", S(src), P=[np1 - 1]), col="a"))),
        ("len-selection-elem", N("len", N("elem", N("parts", S(src), P=[0, 1]), f="add1")), N("len", N("elem", N("parts", S(src), P=[np1 - 2, np1 - 1]), f="add1"))),
        ("len-selection-any", N("len", N("col", N("parts", S(src), P=[i]), col=col)), N("len", N("col", N("parts", S(src), P=[j]), col=col))),
        ("parts-selection", N("elem", N("parts", S(src), P=[i]), f="add1"), N("elem", N("parts", S(src), P=[j]), f="add1")),
        ("len-projection", N("len", S(src)), N("len", N("filter", S(src), pred={"p": "cmp", "col": "b", "f": "ge", "v": 1}))),
        ("repsize-frame", N("repsize", S(src), size="250B"), N("repsize", N("proj", S(src), cols=["a"]), size="250B")),
        ("repsize-size", N("repsize", base, size="250B"), N("repsize", base, size="600B")),
        ("repart-n", N("repart", S(src), n=2), N("repart", S(src), n=np1 + 2)),
        ("setindex-parts", N("setindex", N("parts", S(src), P=[i]), col=col), N("setindex", N("parts", S(src), P=[j]), col=col)),
    ]
    if src == "T1" and generic:
        for _ in range(3):
            a, b = rnd.sample(generic, 2)
            out.append(("generic", a, b))
    return out


def pq_pairs(rnd, nfiles):
    i, j = rnd.sample(range(nfiles), 2)
    v1, v2 = rnd.sample([0, 1, 2, 3], 2)
    P = lambda **rkw: {"op": "pq", "rkw": rkw}
    return [
        ("pq-divisions", P(), P(calculate_divisions=True)),
        ("pq-len", N("len", P()), N("len", N("col", P(), col="a"))),
        ("pq-len-filter", N("len", P(filters=[["a", ">", v1]])), N("len", P(filters=[["a", ">", v2]]))),
        ("pq-columns", P(columns=["a", "b"]), P(columns=["a", "k"])),
        ("pq-projection", N("proj", P(), cols=["a", "b"]), N("col", P(), col="k")),
        ("pq-filter", N("filter", P(), pred={"p": "cmp", "col": "a", "f": "gt", "v": v1}), N("filter", P(), pred={"p": "cmp", "col": "a", "f": "gt", "v": v2})),
        ("pq-parts", N("parts", P(calculate_divisions=True), P=[i]), N("parts", P(calculate_divisions=True), P=[j])),
        ("pq-len-parts", N("len", N("parts", P(), P=[i])), N("len", N("parts", P(), P=[j]))),
        ("pq-setindex", N("setindex", P(), col="a"), N("setindex", P(), col="k")),
        ("pq-arrow", P(filesystem="arrow"), P(filesystem="arrow", calculate_divisions=True)),
        ("pq-arrow-len", N("len", P(filesystem="arrow")), N("len", N("col", P(filesystem="arrow"), col="b"))),
    ]


def make_pool(hseed, np1, nfiles, generic):
    """-> dict qid(1..16) -> {"q", "kind", "ord", "idx"}; (1,2), (3,4) gated twins; (5,6) .. (11,12) twins; (13,14), (15,16) parquet twins"""
    rnd = random.Random(hseed)
    pool = {}

    def put(qid, kind, q, ord_=True, idx=True):
        spine, lens = "", bool(ord_)
        if q["op"] == "setindex":          # sorted by the key, ties free (the disk shuffle's task order decides them)
            ord_, spine, lens = False, "index", True
        elif q["op"] == "sort":
            ord_, spine, lens = False, q["by"][0], True
        pool[qid] = {"q": q, "kind": kind, "ord": ord_, "idx": idx, "spine": spine, "lens": lens}

    sort_heavy = hseed % 2 == 0      # every second history: more sort keys than the capacity of the divisions cache
    seen = set()

    def pick(src, allowed, k):
        """k pairs, each drawn with its own base frame / column / selection, no query twice in the pool"""
        out = []
        for _ in range(200):
            cand = [p for p in twin_pairs(rnd, src, np1, generic if src == "T1" else None) if allowed(p[0])]
            p = rnd.choice(cand)
            ka, kb = json.dumps(p[1], sort_keys=True), json.dumps(p[2], sort_keys=True)
            if ka in seen or kb in seen or ka == kb:
                continue
            seen.update((ka, kb))
            out.append(p)
            if len(out) == k:
                return out
        raise tlc.MachineryError("pool generation found no distinct pairs")

    sorts = lambda kind: kind.startswith(("sort", "setindex"))
    for n, (kind, a, b) in enumerate(pick("G1", sorts if sort_heavy else (lambda kind: kind.startswith(("sort", "setindex", "repsize", "len-projection"))), 2)):
        put(1 + 2 * n, kind, a), put(2 + 2 * n, kind, b)
    if sort_heavy:
        chosen = pick("T1", sorts, 4)
    else:       # one pair about lengths / selections, one about partition sizes, two of any kind
        chosen = pick("T1", lambda kind: kind.startswith(("len-", "parts-")), 1) + pick("T1", lambda kind: kind.startswith(("repsize", "repart")), 1) + pick("T1", lambda kind: True, 2)
    for n, (kind, a, b) in enumerate(chosen):
        if kind == "generic":
            put(5 + 2 * n, kind, a["q"], a["sc"]["ord"], a["sc"]["idx"]), put(6 + 2 * n, kind, b["q"], b["sc"]["ord"], b["sc"]["idx"])
        else:
            put(5 + 2 * n, kind, a), put(6 + 2 * n, kind, b)
    pqs = pq_pairs(rnd, nfiles)
    stats_based = [p for p in pqs if p[0] in ("pq-divisions", "pq-len", "pq-parts", "pq-len-parts", "pq-arrow", "pq-arrow-len")]     # answered from file statistics
    first = rnd.choice(stats_based)
    for n, (kind, a, b) in enumerate([first, rnd.choice([p for p in pqs if p[0] != first[0]])]):
        put(13 + 2 * n, kind, a), put(14 + 2 * n, kind, b)
    return pool


# ------------------------------------------------------------------------------------------------ fresh processes
class Zygote:
    """a process forked before its parent built anything; every request is answered by a grandchild forked from it"""

    def __init__(self, fn):
        self.req_r, self.req_w = os.pipe()
        self.res_r, self.res_w = os.pipe()
        self.pid = os.fork()
        if self.pid == 0:
            try:
                os.close(self.req_w), os.close(self.res_r)
                self._serve(fn)
            finally:
                os._exit(0)
        os.close(self.req_r), os.close(self.res_w)
        self.out = os.fdopen(self.req_w, "w")
        self.inp = os.fdopen(self.res_r, "r")

    def _serve(self, fn):
        gc.collect()
        gc.freeze()                      # what was imported stays out of the collector: less copy-on-write in the grandchildren
        inp = os.fdopen(self.req_r, "r")
        out = os.fdopen(self.res_w, "w")
        for line in inp:
            r, w = os.pipe()
            pid = os.fork()
            if pid == 0:
                try:
                    os.close(r)
                    try:
                        res = fn(json.loads(line))
                    except BaseException as ex:
                        res = {"__error__": f"{type(ex).__name__}: {ex}", "tb": traceback.format_exc()[-800:]}
                    with os.fdopen(w, "w") as f:
                        f.write(json.dumps(res))
                finally:
                    os._exit(0)
            os.close(w)
            with os.fdopen(r, "r") as f:
                data = f.read()
            os.waitpid(pid, 0)
            out.write((data or json.dumps({"__error__": "fresh process died"})) + "\n")
            out.flush()

    def ask(self, req):
        self.out.write(json.dumps(req) + "\n")
        self.out.flush()
        return json.loads(self.inp.readline())

    def close(self):
        try:
            self.out.close()
            os.waitpid(self.pid, 0)
            self.inp.close()
        except Exception:
            pass


def alone(req):
    """runs in a fresh process: the query built and observed alone"""
    import warnings
    warnings.filterwarnings("ignore")
    job, q = req["job"], req["q"]
    env = sources(job)
    coll = rel.build(q, env, "dask")
    out = {"logical": sess.facts(coll)}
    if req.get("optimized"):
        try:
            opt = coll.optimize()
            opt.divisions
            out["optimized"] = sess.facts(opt)
        except Exception as ex:
            out["optimized"] = {"name": "", "plan": "", "err": "opt:" + type(ex).__name__ + ":" + str(ex)[:120], "schema": {}, "np": -1, "div_known": False, "div": [], "lens": [],
                                "result": {"ok": False, "err": type(ex).__name__}}
    return out


# ------------------------------------------------------------------------------------------------ one history
def _key_id(key, table):
    s = repr(key)
    if s not in table:
        table[s] = len(table) + 1
    return table[s]


def preload():
    """import (only) what a session needs, so that the fresh processes forked from the zygote do not pay for it"""
    import dask.dataframe  # noqa
    import dask_expr  # noqa
    import dask_expr.io.parquet  # noqa
    import pandas  # noqa
    import pyarrow.dataset  # noqa
    import pyarrow.parquet  # noqa
    import fsspec.implementations.local  # noqa
    from dask_expr import _verif
    if not _verif.ENABLED:
        raise tlc.MachineryError("hooks are not enabled in the history process")


def spine_of(res, spine):
    """the sequence of sort-key values of an encoded result table (index, or a column)"""
    t = res.get("t")
    if not spine or not res.get("ok") or not t or t["kind"] != "frame":
        return []
    if spine == "index":
        return [r[0] for r in t["rows"]]
    if spine in t["cols"]:
        j = t["cols"].index(spine) + 1
        return [r[j] for r in t["rows"]]
    return []


def run_history(job):
    """executes in its own process. -> {"hid", "obs": [...], "lru": {cache: [events]}, "stats"}"""
    common._init_worker()
    preload()
    zy = Zygote(alone)                       # before anything is built here
    import warnings
    warnings.filterwarnings("ignore")
    from dask_expr import _verif
    rnd = random.Random(job["hseed"])
    pool = job["pool"]
    stats = {"cache_hit": 0, "cache_miss": 0, "evictions": 0, "instance_hit": 0, "fail_raised": 0, "fail_not_raised": 0, "rewrites": 0, "observations": 0, "fresh_processes": 0}
    lru = {}
    keyids = {}
    refs = {}
    gen = {}

    def sink(kind, f):
        if kind == "cache":
            stats["cache_hit" if f["hit"] else "cache_miss"] += 1
        elif kind == "instance":
            if f["hit"]:
                stats["instance_hit"] += 1
        elif kind == "lru_new":
            gen[f["cache"]] = gen.get(f["cache"], 0) + 1          # id() of a collected LRU may be reused by a new one
        elif kind in ("lru_get", "lru_set"):
            ev = {"op": kind[4:], "key": _key_id(f["key"], keyids), "size": int(f["size"]), "cap": int(f.get("maxsize", 0) or 0),
                  "evicted": 0 if f.get("evicted") is None else _key_id(f["evicted"], keyids)}
            if ev["evicted"]:
                stats["evictions"] += 1
            lru.setdefault(f"{f['cache']}.{gen.get(f['cache'], 0)}", []).append(ev)

    _verif.set_sink(sink)
    obs = []
    try:
        disk = 1
        pq_write(job["pq_path"], job["dseed"], disk, "dask", job["nfiles"])
        env = sources(job)
        handle, opt, held = {}, {}, []
        for n, st in enumerate(job["hist"]):
            a, qid = st["a"], st["q"]
            ent = pool.get(str(qid))
            if a == "Build":
                if qid in handle:
                    held.append(handle[qid])            # the earlier handle stays alive until Discard
                handle[qid] = rel.build(ent["q"], env, "dask")
                opt.pop(qid, None)
            elif a == "Plan":
                try:
                    o = handle[qid].optimize()
                    if (job["hseed"] + n) % 2:       # half of the plans are only held, not asked anything before later steps
                        o.divisions
                        o.npartitions
                    opt[qid] = o
                except Exception:
                    opt.pop(qid, None)
            elif a == "FailPlan":
                try:
                    f = sess.facts(handle[qid])
                    raised = bool(f["err"]) or not f["result"]["ok"]
                except Exception:
                    raised = True
                stats["fail_raised" if raised else "fail_not_raised"] += 1
            elif a == "Observe":
                here = {"logical": sess.facts(handle[qid])}
                if qid in opt:
                    try:
                        here["optimized"] = sess.facts(opt[qid])
                    except Exception as ex:
                        here["optimized"] = {"name": "", "plan": "", "err": "facts:" + type(ex).__name__ + ":" + str(ex)[:120], "schema": {}, "np": -1, "div_known": False, "div": [],
                                             "lens": [], "result": {"ok": False, "err": type(ex).__name__}}
                # the same query alone in a fresh process: asked once per (query, dataset version) and history
                rk = (qid, disk if qid in PQ else 0)
                if rk not in refs or ("optimized" in here and "optimized" not in refs[rk]):
                    refs[rk] = zy.ask({"job": {k: job[k] for k in ("dseed", "presorted", "np1", "np2", "pq_path")}, "q": ent["q"], "optimized": True})
                    stats["fresh_processes"] += 1
                ref = refs[rk]
                if "__error__" in ref:
                    raise tlc.MachineryError("fresh process: " + ref["__error__"] + ref.get("tb", ""))
                stats["observations"] += 1
                for form in here:
                    obs.append({"hid": job["hid"], "step": n, "qid": qid, "form": form, "disk": disk, "here": here[form], "alone": json.loads(json.dumps(ref[form]))})
            elif a == "Churn":
                # another query of the session: a sort of its own frame, planned and dropped
                f = N("setindex", N("assign", S("T1"), col="z", e={"x": "bin", "f": "add", "l": {"x": "col", "col": "a"}, "r": {"x": "lit", "v": qid}}), col="z")
                try:
                    o = rel.build(f, env, "dask").optimize()
                    o.divisions
                except Exception:
                    pass
                o = None
            elif a == "Discard":
                handle.pop(qid, None)
                opt.pop(qid, None)
                held[:] = []
                gc.collect()
            elif a in ("RewriteDask", "RewriteOutside"):
                disk += 1
                stats["rewrites"] += 1
                pq_write(job["pq_path"], job["dseed"], disk, "dask" if a == "RewriteDask" else "outside", job["nfiles"])
            elif a == "GateOn":
                GATE["fail"] = rnd.choice(["all", "last"])
            elif a == "GateOff":
                GATE["fail"] = False
    finally:
        _verif.set_sink(None)
        zy.close()
    return {"hid": job["hid"], "obs": obs, "lru": lru, "stats": stats}


def _history_entry(job):
    try:
        return run_history(job)
    except BaseException as ex:
        return {"hid": job["hid"], "__machinery__": f"{type(ex).__name__}: {ex}", "tb": traceback.format_exc()[-1500:]}


# ------------------------------------------------------------------------------------------------ the check
HIST_DEFS = {"Queries": "1..16", "PQ": "13..16", "Gated": "1..4", "Twin": "[q \\in 1..16 |-> IF q % 2 = 0 THEN q - 1 ELSE 0]", "Fillers": "17..28"}
SMALL_DEFS = {"Queries": "1..3", "PQ": "{3}", "Gated": "{1}", "Twin": "[q \\in 1..3 |-> IF q = 2 THEN 1 ELSE 0]", "Fillers": "{4, 5}"}


def model_checks(chk, tier):
    steps = 9 if tier == "quick" else 11
    for name, sw in [("as implemented", ("TRUE", "TRUE", "TRUE")), ("key incomplete", ("FALSE", "TRUE", "TRUE")), ("name does not cover the data", ("TRUE", "FALSE", "TRUE")),
                     ("failure leaves an entry", ("TRUE", "TRUE", "FALSE"))]:
        cfg = tlc.cfg(spec="Spec", constants={"Cap": 2, "MaxVer": 2, "MaxSteps": steps, "KeyComplete": sw[0], "NameCoversData": sw[1], "CleanFailure": sw[2]}, defs=SMALL_DEFS,
                      invariants=["Transparent", "Bounded", "EntriesRight"], view="HistView")
        r = tlc.run("Hist", cfg, defs=tlc.mcdefs(SMALL_DEFS), timeout=3000)
        expect_violation = sw != ("TRUE", "TRUE", "TRUE")
        if expect_violation:
            chk.add_tlc(f"Hist negative control: {name}", r)
            chk.extra[f"hist_model_{name.replace(' ', '_')}_violates"] = r.violated
            if not r.violated:
                raise tlc.MachineryError(f"Hist.tla: negative control '{name}' found no counterexample")
        else:
            chk.add_tlc("Hist (mechanisms as implemented)", r)
            if not r.ok:
                raise tlc.MachineryError("Hist.tla violates its invariants: " + str(r.violated))


def apalache_lru(chk):
    """thorough tier: the inductive invariant of the LRU model (spec/LruInd.tla) discharged by Apalache - bounded size and
    no key twice for EVERY cache content of up to 5 keys, reachable or not; a tool failure is noted, a counterexample is a
    machinery failure (the design model would be wrong)"""
    import subprocess
    import time
    scratch = tempfile.mkdtemp(prefix="verif_apa.")
    try:
        shutil.copy(os.path.join(common.ROOT, "spec", "apalache", "LruInd.tla"), scratch)
        t0 = time.time()
        outcome = []
        for args in (["--init=Init", "--length=0"], ["--init=IndInit", "--length=1"]):
            try:
                r = subprocess.run(["apalache-mc", "check", "--cinit=CInit", "--inv=IndInv", f"--out-dir={scratch}/out"] + args + ["LruInd.tla"], cwd=scratch, capture_output=True, text=True, timeout=1800)
            except Exception as ex:
                chk.extra["apalache_lru_inductive"] = f"not run: {type(ex).__name__}"
                return
            ok = "EXITCODE: OK" in r.stdout
            outcome.append(ok)
            if not ok and "violat" in r.stdout.lower():
                raise tlc.MachineryError("Apalache refutes the inductive invariant of spec/LruInd.tla:\n" + r.stdout[-1500:])
        chk.extra["apalache_lru_inductive"] = {"init_implies_inv": outcome[0], "inv_is_inductive": outcome[1], "wall_s": round(time.time() - t0, 1)}
    finally:
        shutil.rmtree(scratch, ignore_errors=True)


def gen_histories(chk, n, steps, seed):
    cfg = tlc.cfg(spec="Spec", constants={"Cap": 10, "MaxVer": 4, "MaxSteps": steps, "KeyComplete": "TRUE", "NameCoversData": "TRUE", "CleanFailure": "TRUE"}, defs=HIST_DEFS,
                  invariants=["Transparent", "EmitHist"])
    r = tlc.run("Hist", cfg, defs=tlc.mcdefs(HIST_DEFS), workers=1, simulate=f"num={n}", depth=steps + 1, seed=seed, timeout=3000)
    chk.add_tlc(f"Hist simulate num={n} depth={steps}", r)
    hs = [json.loads(p[0]) for p in r.tagged("HIST")]
    rnd = random.Random(seed)
    rnd.shuffle(hs)
    return hs[:n]


def scripted_histories(steps):
    """two deterministic stress shapes added to the simulated ones (they are behaviours of Hist.tla as well: every step is
    enabled where it is taken): fill-then-observe-all, and plan / evict / observe the held optimized plan"""
    B = lambda q: {"a": "Build", "q": q}
    P = lambda q: {"a": "Plan", "q": q}
    O = lambda q: {"a": "Observe", "q": q}
    h1 = [B(q) for q in range(1, 17)] + [P(q) for q in range(1, 17)] + [O(q) for q in range(1, 17)] + [O(q) for q in range(16, 0, -1)]
    h2 = [B(5), P(5), B(6), P(6)] + [s for q in list(range(7, 13)) + list(range(1, 5)) + [13, 14] for s in (B(q), P(q), O(q))] + [O(5), O(6), {"a": "Discard", "q": 5}, B(5), O(5)]
    h3 = [B(13), O(13), B(14), O(14), {"a": "RewriteOutside", "q": 0}, B(13), O(13), B(14), O(14), {"a": "RewriteDask", "q": 0}, B(14), O(14), B(13), O(13), B(15), O(15), B(16), O(16),
          {"a": "RewriteOutside", "q": 0}, B(15), O(15), B(16), O(16), B(13), P(13), O(13)]
    h4 = [{"a": "GateOn", "q": 0}] + [s for q in (1, 2, 3, 4) for s in (B(q), {"a": "FailPlan", "q": q})] + [{"a": "GateOff", "q": 0}] + [s for q in (1, 2, 3, 4) for s in (P(q), O(q))]
    C = lambda f: {"a": "Churn", "q": f}
    # plans held while 12 other sorts go through the divisions cache (capacity 10), then used
    h5 = [s for q in (5, 6, 7, 8, 1, 2) for s in (B(q), P(q))] + [C(f) for f in range(17, 29)] + [O(q) for q in (5, 6, 7, 8, 1, 2)] + [C(f) for f in range(17, 23)] + \
         [s for q in (9, 10, 11, 12, 3, 4, 15, 16) for s in (B(q), O(q))] + [O(q) for q in (5, 6, 7, 8)]
    return [h1, h2, h3, h4, h5]


def run(tier="quick", seed=0, replay_path=None):
    os.environ[common.GUARD] = "1"          # before dask_expr is imported anywhere in this process tree
    if "dask_expr" in sys.modules and not sys.modules["dask_expr"]._verif.ENABLED:
        raise tlc.MachineryError("dask_expr was imported before the hook guard was set")
    chk = common.Check("C15", tier, seed)
    t = TIERS[tier]
    rnd = random.Random(seed)
    model_checks(chk, tier)
    if tier == "thorough":
        apalache_lru(chk)
    scratch = tempfile.mkdtemp(prefix="verif_c15.")
    try:
        if replay_path:
            with open(replay_path) as f:
                jobs = [json.load(f)["case"]["job"]]
            for j in jobs:
                j["pq_path"] = os.path.join(scratch, "ds0")
        else:
            generic = rel.gen_queries("general", 2, seed=seed, sample=t["generic"], chk=chk)
            generic = [c for c in generic if c["depth"] >= 1 and "merge" not in rel.ops_of(c["q"])]
            hists = gen_histories(chk, t["histories"], t["steps"], seed)
            scripted = scripted_histories(t["steps"])
            jobs = []
            for i, h in enumerate(scripted * (2 if tier == "quick" else 8) + hists):
                hseed = seed * 100003 + i
                r2 = random.Random(hseed)
                job = {"hid": i, "hseed": hseed, "dseed": r2.randrange(6), "presorted": r2.random() < 0.5, "np1": r2.choice([3, 4]), "np2": r2.choice([1, 2]), "nfiles": 3,
                       "pq_path": os.path.join(scratch, f"ds{i}"), "hist": h}
                job["pool"] = {str(k): v for k, v in make_pool(hseed, job["np1"], job["nfiles"], generic).items()}
                jobs.append(job)
        common.assert_repo()
        ctx = mp.get_context("fork")
        with ctx.Pool(processes=t["procs"], maxtasksperchild=1) as pool:
            results = pool.map(_history_entry, jobs, chunksize=1)
    finally:
        shutil.rmtree(scratch, ignore_errors=True)
    byjob = {j["hid"]: j for j in jobs}
    lines, lru_traces = [], []
    stats = {}
    for r in results:
        if "__machinery__" in r:
            raise tlc.MachineryError(f"history {r['hid']}: {r['__machinery__']}\n{r['tb']}")
        for k, v in r["stats"].items():
            stats[k] = stats.get(k, 0) + v
        for o in r["obs"]:
            ent = byjob[o["hid"]]["pool"][str(o["qid"])]
            sess.finalize_pair(o["alone"], o["here"])
            lines.append({"tid": len(lines), "hid": o["hid"], "step": o["step"], "qid": o["qid"], "form": o["form"], "alone": o["alone"], "here": o["here"],
                          "ord": bool(ent["ord"]), "idx": bool(ent["idx"]), "check_name": True, "check_plan": True, "check_lens": bool(ent["lens"]),
                          "spine_here": spine_of(o["here"]["result"], ent["spine"]), "spine_alone": spine_of(o["alone"]["result"], ent["spine"])})
        for cid, evs in r["lru"].items():
            lru_traces.append({"tid": len(lru_traces), "hid": r["hid"], "events": evs})
    chk.extra["session_stats"] = stats
    chk.evaluations = len(lines)
    slim = [{k: v for k, v in ln.items() if k not in ("hid", "step", "qid", "form")} for ln in lines]
    cfg = tlc.cfg(init="Init", next="Next", postcondition="AllConsumed")
    res, rejects, _, _ = tlc.validate("SessionTrace", slim, cfg_text=cfg, chunk=200, parallel=8)
    for r in res:
        chk.add_tlc("SessionTrace", r)
    res2, rejects2, _, _ = tlc.validate("LruTrace", [{"tid": x["tid"], "events": x["events"]} for x in lru_traces], cfg_text=cfg, chunk=400, parallel=8)
    for r in res2:
        chk.add_tlc("LruTrace", r)
    chk.traces = len(lines) + len(lru_traces)
    for ln in lines:
        job = byjob[ln["hid"]]
        ent = job["pool"][str(ln["qid"])]
        chk.note_nontrivial(common.case_hash([ln["hid"], ln["step"], ln["form"]]))
        if ln["tid"] in rejects:
            twin = job["pool"].get(str(ln["qid"] + (1 if ln["qid"] % 2 else -1)), {})
            chk.fail(rejects[ln["tid"]], {"kind": ent["kind"], "q": ent["q"], "twin": twin.get("q"), "form": ln["form"], "qid": ln["qid"], "step": ln["step"], "ops": _ops(ent["q"]),
                                          "history_before": job["hist"][:ln["step"] + 1], "presorted": job["presorted"],
                                          "errmsg": ln["here"].get("err", "") or ln["here"]["result"].get("err", ""),
                                          "job": {k: job[k] for k in ("hid", "hseed", "dseed", "presorted", "np1", "np2", "nfiles", "hist", "pool")}},
                     {"here_name": ln["here"].get("name"), "alone_name": ln["alone"].get("name"), "here_plan": ln["here"].get("plan"), "alone_plan": ln["alone"].get("plan"),
                      "here_div": ln["here"].get("div"), "alone_div": ln["alone"].get("div"), "here_lens": ln["here"].get("lens"), "alone_lens": ln["alone"].get("lens")})
    for x in lru_traces:
        if x["tid"] in rejects2:
            chk.fail("Lru:" + rejects2[x["tid"]], {"kind": "lru", "hid": x["hid"], "events": x["events"][:60], "ops": [], "form": "lru"}, {})
    chk.rule = ("histories = behaviours of spec/Hist.tla (TLC -simulate, 16 queries, LRU capacity 10, up to 4 dataset versions) plus 5 scripted stress shapes; pools of 16 concrete "
                "queries per history (twin pairs differing in one cache-key field, gated sources, parquet readers; generic programs from QueryGen); each observation (logical handle, "
                "and the held optimized plan if planned) is compared with the same query in a fresh process forked from a pristine zygote. non-trivial = every observation")
    for ln in lines[5:3000:1000]:
        chk.sample({"hid": ln["hid"], "step": ln["step"], "q": byjob[ln["hid"]]["pool"][str(ln["qid"])]["q"], "form": ln["form"], "name": ln["here"].get("name"), "div": ln["here"].get("div")})
    chk.assumptions += ["a handle on the parquet dataset that was built before the dataset was rewritten is not observed (the property speaks of RE-reading)",
                        "the fresh reference process is forked from a zygote that imported dask_expr and the harness but never built an expression"]
    return chk.finish()


def _ops(q):
    out = []
    while True:
        out.append(q["op"])
        if "c" not in q:
            return out[::-1]
        q = q["c"][0]

"""C03 - a filter keeps exactly the rows that satisfy the user's predicate.

Program space: spec/QueryGen.tla focus "filter" (rich predicate trees incl. the OR-factoring shapes, filters above and
below projections / elementwise ops / renames / sorts / shuffles / repartitions / merges of every kind x suffix pair).
Decided by TLC on two kinds of trace: (1) every optimizer stage == the unoptimized query (spec/RelTrace.tla QueryVerdict),
(2) "truth" lines: the rows every filter of the program keeps == the rows of the unfiltered frame whose predicate is true
under spec/Rel.tla Keep (numpy mode: comparisons with NULL false except ne).
"""
from . import family

TIERS = {
    "quick": dict(depth=2, sample=450, sim_num=80, sim_depth=4, stages=["simplified-logical", "fused"]),
    "thorough": dict(depth=2, sample=None, sim_num=240, sim_depth=4,
                     stages=["simplified-logical", "tuned-logical", "physical", "simplified-physical", "fused"]),
}


def _keep(c):
    """the join-side table of the property is covered systematically, not by sampling: every join kind x suffix pair
    x a simple filter on every output column"""
    q = c["q"]
    return (q["op"] == "filter" and q["c"][0]["op"] == "merge" and q["pred"]["p"] == "cmp"
            and q["pred"]["f"] == "gt" and q["pred"]["v"] == 0)


def run(tier="quick", seed=0, replay_path=None):
    return family.run_family("C03", "filter", TIERS, tier, seed, replay_path, truth=True, keep=_keep)

"""C10 - execution knobs change performance only, never results.

Programs: spec/QueryGen.tla focus "knobs"; knob grids: QueryGen!KnobGrid (TLC-enumerated); partition counts on both
sides of the planner's algorithm-selection thresholds. Reference = the same program with default knobs; TLC validates
the result under every knob tuple (and fuse on/off) against it with the acceptance relation of spec/Rel.tla.
"""
from __future__ import annotations

import json
import random

from . import common, rel, tlc, tree

TIERS = {
    "quick": dict(depth=2, sample=140, sim_num=30, sim_depth=3, per_prog=10, shapes=2),
    "thorough": dict(depth=2, sample=1200, sim_num=90, sim_depth=3, per_prog=40, shapes=5),
}
SHAPES = [(1, 1), (2, 3), (5, 4), (3, 8), (9, 2), (4, 17), (8, 8), (2, 1)]
KIND_OF = {"reduce": "reduce", "groupby": "groupby", "merge": "merge", "sort": "sort", "setindex": "sort", "shuffle": "shuffle",
           "dropdup": "dedup", "unique": "dedup", "valuecounts": "dedup"}


def to_kwargs(kn):
    """spec encoding -> keyword values"""
    out = {}
    for k, v in kn.items():
        if v == -1 or v == "":
            continue
        if k == "split_every":
            out[k] = False if v == 0 else v
        elif k == "split_out":
            out[k] = True if v == 99 else v
        elif k == "broadcast":
            out[k] = {0: False, 1: True, 50: 0.5, 200: 2.0}[v]
        elif k == "upsample":
            out[k] = v / 100.0
        else:
            out[k] = v
    return out


def replay(case):
    q, sc = case["q"], case["sc"]
    tabs = rel.make_tables(case["dseed"], nrows=(18, 17))
    results, obs = [], []
    env = rel.cached_sources(("c10", case["dseed"]), tabs, {"T1": ("from_pandas", case["np"][0]), "T2": ("from_pandas", case["np"][1])})
    try:
        base = rel.build(q, env, "dask")
    except Exception as ex:
        return {"tid": case["tid"], "unbuildable": f"{type(ex).__name__}: {ex}"[:200]}
    ref = rel.observe(lambda: rel.run_compute(base))
    results.append(ref)
    r = rel.observe(lambda: rel.run_compute(base, fuse=False))
    obs.append({"label": "default/fuse=False", "res": r, "ord": True, "idx": True})
    results.append(r)
    for i, kn in enumerate(case["knobs"]):
        kw = to_kwargs(kn)
        try:
            coll = rel.build(q, env, "dask", knobs=kw)
            r = rel.observe(lambda: rel.run_compute(coll, fuse=(i % 3 != 0)))
        except Exception as ex:
            r = {"ok": False, "err": type(ex).__name__, "msg": str(ex)[:150]}
        obs.append({"label": json.dumps(kw, sort_keys=True) + ("" if i % 3 else "/fuse=False"), "res": r, "ord": True, "idx": True})
        results.append(r)
    scale = rel.finalize(results)
    strip = lambda res: {k: v for k, v in res.items() if k in ("ok", "err", "t")}
    msgs = {o["label"]: (o["res"].get("err", "") + ": " + o["res"].get("msg", ""))[:160] for o in obs if not o["res"]["ok"]}
    return {"tid": case["tid"], "kind": "query", "q": q, "sc": sc, "scale": scale, "refusals": False, "ref": strip(ref),
            "obs": [dict(o, res=strip(o["res"])) for o in obs], "msgs": msgs}


def merge_how(q):
    while True:
        if q["op"] == "merge":
            return q["how"]
        if "c" not in q:
            return ""
        q = q["c"][0]


def run(tier="quick", seed=0, replay_path=None):
    chk = common.Check("C10", tier, seed)
    t = TIERS[tier]
    rnd = random.Random(seed)
    if replay_path:
        with open(replay_path) as f:
            c = json.load(f)["case"]
        cases = [{k: c[k] for k in ("q", "sc", "dseed", "np", "knobs")}]
    else:
        cfg = tlc.cfg(spec="Spec", constants={"MaxOps": 0, "Focus": '"knobs"'})
        r = tlc.run("QueryGen", cfg, workers=1, extra='ASSUME EmitKnobs("knobs.ndjson")', outfiles=["knobs.ndjson"])
        chk.add_tlc("QueryGen knob grids", r)
        grid = {}
        for rec in r.outfiles["knobs.ndjson"]:
            grid.setdefault(rec["kind"], []).append(rec["knobs"])
        chk.extra["knob_tuples_enumerated"] = {k: len(v) for k, v in grid.items()}
        qs = rel.gen_queries("knobs", t["depth"], seed=seed, sample=t["sample"], sim_num=t["sim_num"], sim_depth=t["sim_depth"], chk=chk)
        cases = []
        for c in qs:
            kinds = [KIND_OF[o] for o in rel.ops_of(c["q"]) if o in KIND_OF]
            if not kinds:
                continue
            for shape in rnd.sample(SHAPES, t["shapes"]):
                tuples = []
                for _ in range(t["per_prog"]):
                    kn = {}
                    for kd in set(kinds):
                        kn.update(rnd.choice(grid[kd]))
                    tuples.append(kn)
                if "merge" in kinds:
                    # the join-strategy knobs are taken systematically: every broadcast value x merge npartitions hint
                    tuples += [g for g in grid["merge"] if g["shuffle_method"] in ("", "tasks")][: 15]
                cases.append({"q": c["q"], "sc": c["sc"], "dseed": rnd.randrange(4), "np": list(shape), "knobs": tuples})
    for i, c in enumerate(cases):
        c["tid"] = i
    chk.evaluations = sum(len(c["knobs"]) + 1 for c in cases)
    chk.rule = ("programs = reachable states of spec/QueryGen.tla focus knobs that contain a knob-bearing operator; knob tuples = QueryGen!KnobGrid (TLC-enumerated), "
                f"{t['per_prog']} seeded tuples per (program, partition shape) plus every (broadcast, npartitions) pair for merges; {t['shapes']} seeded partition shapes out of {SHAPES}; "
                "fuse alternates. non-trivial = a knob tuple different from the defaults on a program whose default execution computed")
    common.assert_repo()
    traces = common.pmap(replay, cases, chunk=1)
    good = []
    for c, tr in zip(cases, traces):
        if "__machinery__" in tr:
            chk.machinery.append(tr["__machinery__"] + " :: " + json.dumps(c["q"])[:200])
            continue
        if "unbuildable" in tr:
            continue
        good.append(tr)
        if tr["ref"]["ok"]:
            for kn in c["knobs"]:
                if to_kwargs(kn):
                    chk.note_nontrivial(common.case_hash([c["q"], c["np"], kn]))
    if len(chk.machinery) > 0.03 * len(cases):
        raise tlc.MachineryError(f"too many replay failures: {chk.machinery[:3]}")
    cfg = tlc.cfg(init="Init", next="Next", postcondition="AllConsumed")
    slim = [{k: v for k, v in tr.items() if k != "msgs"} for tr in good]
    results, rejects, _, _ = tlc.validate("RelTrace", slim, cfg_text=cfg, chunk=40, parallel=12)
    for r in results:
        chk.add_tlc("RelTrace", r)
    chk.traces = sum(len(tr["obs"]) for tr in good)
    bycase = {c["tid"]: c for c in cases}
    for tr in good:
        for clause in (rejects[tr["tid"]].split(";") if tr["tid"] in rejects else []):
            c = bycase[tr["tid"]]
            label, _, cl = clause.rpartition(":")
            kn = None
            for k, o in zip([None] + c["knobs"], tr["obs"]):
                if o["label"] == label:
                    kn = k
            pub = {"q": c["q"], "sc": c["sc"], "dseed": c["dseed"], "np": c["np"], "knobs": [kn] if kn else [], "kw": to_kwargs(kn) if kn else {},
                   "ops": rel.ops_of(c["q"]), "groupby_fs": rel.groupby_fs(c["q"]), "how": merge_how(c["q"]), "label": label, "errmsg": tr["msgs"].get(label, "")}
            if (cl if label else clause) == "Sorted":
                tabs = rel.make_tables(c["dseed"], nrows=(18, 17))
                envd = rel.dask_sources(tabs, {"T1": ("from_pandas", c["np"][0]), "T2": ("from_pandas", c["np"][1])})
                pub["sort_input_nullkey_partition"] = rel.sort_input_nullkey_partition(c["q"], envd)
            chk.fail(cl if label else clause, pub, {"msg": tr["msgs"].get(label, "")})
    for tr in good[2:300:120]:
        chk.sample({"q": tr["q"], "labels": [o["label"] for o in tr["obs"]][:6]})
    chk.assumptions += ["reference = the same program with default knobs through compute()", "p2p shuffle not available in the sandbox (tasks and disk only)"]
    if not replay_path:
        chk.traces += tree.run_component(chk, tier)
    return chk.finish()

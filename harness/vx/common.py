"""Shared plumbing for the property checks: verdict bookkeeping, known findings, evidence, parallel replay."""
from __future__ import annotations

import concurrent.futures as cf
import hashlib
import json
import multiprocessing as mp
import os
import sys
import time
import traceback

from . import tlc

ROOT = tlc.ROOT
EVID = os.path.join(ROOT, "evidence")
REPLAYS = os.path.join(ROOT, "replays")
FINDINGS = os.path.join(ROOT, "known_findings.jsonl")
GUARD = "DASK_EXPR_VERIF"

_SAFE = {"len": len, "all": all, "any": any, "min": min, "max": max, "sorted": sorted, "set": set,
         "tuple": tuple, "list": list, "sum": sum, "abs": abs, "isinstance": isinstance, "str": str,
         "int": int, "dict": dict, "range": range, "bool": bool}


def load_findings(pid):
    out = []
    if os.path.exists(FINDINGS):
        with open(FINDINGS) as f:
            for ln in f:
                ln = ln.strip()
                if not ln or ln.startswith("#"):
                    continue
                e = json.loads(ln)
                if pid in e.get("properties", [e.get("property")]):
                    out.append(e)
    return out


def finding_matches(e, clause, case):
    if e.get("status") != "known":
        return False           # "fixed" entries suppress nothing
    if "clauses" in e and clause not in e["clauses"]:
        return False
    try:
        # one namespace (globals): names used inside generator expressions / lambdas of the predicate must resolve too
        return bool(eval(e["when"], dict(_SAFE, __builtins__={}, c=case, clause=clause)))
    except Exception:
        return False


def case_hash(case):
    return hashlib.sha1(json.dumps(case, sort_keys=True, default=str).encode()).hexdigest()[:16]


class Check:
    """One run of one property check. Collects TLC statistics, verdicts, samples; writes the evidence file."""

    def __init__(self, pid, tier, seed, level="model_checking"):
        self.pid, self.tier, self.seed, self.level = pid, tier, seed, level
        run_scratch()
        self.t0 = time.time()
        self.states = 0
        self.transitions = 0
        self.traces = 0
        self.evaluations = 0
        self.nontrivial = set()
        self.samples = []
        self.failures = []          # (clause, case, detail)
        self.assumptions = []
        self.extra = {}
        self.tlc_runs = []
        self.rule = ""
        self.exhaustive = False
        self.machinery = []         # machinery problems (never reported as violations)
        self.findings = load_findings(pid)
        # replay files are per run: remove those of earlier runs of this property
        d = os.path.join(REPLAYS, pid)
        if os.path.isdir(d) and not os.environ.get("VERIF_KEEP_REPLAYS"):
            for fn in os.listdir(d):
                if fn.endswith(".json"):
                    try:
                        os.unlink(os.path.join(d, fn))
                    except OSError:
                        pass

    # ---- bookkeeping ----
    def add_tlc(self, name, res):
        self.states += res.distinct
        self.transitions += res.generated
        self.tlc_runs.append({"run": name, "states": res.distinct, "transitions": res.generated,
                              "depth": res.depth, "wall_s": round(res.wall_s, 2)})

    def sample(self, case, limit=3):
        if len(self.samples) < limit:
            self.samples.append(case)

    def fail(self, clause, case, detail=None):
        self.failures.append((clause, case, detail))

    def note_nontrivial(self, key):
        self.nontrivial.add(key)

    # ---- finishing ----
    def finish(self):
        os.makedirs(EVID, exist_ok=True)
        known_hits = {}
        violations = []
        for clause, case, detail in self.failures:
            hit = None
            for e in self.findings:
                if finding_matches(e, clause, case):
                    hit = e
                    break
            if hit is not None:
                known_hits.setdefault(hit["id"], [hit, 0])[1] += 1
            else:
                violations.append((clause, case, detail))
        for fid, (e, cnt) in sorted(known_hits.items()):
            print(f"KNOWN-FINDING: property={self.pid} {e['what']} [{fid}; {cnt} failing case(s) match]")
        seen = set()
        vio_paths = []
        for clause, case, detail in violations:
            h = case_hash([clause, case])
            if h in seen:
                continue
            seen.add(h)
            d = os.path.join(REPLAYS, self.pid)
            os.makedirs(d, exist_ok=True)
            path = os.path.join(d, h + ".json")
            with open(path, "w") as f:
                json.dump({"property": self.pid, "clause": clause, "case": case, "detail": detail}, f, indent=1, default=str)
            vio_paths.append(path)
            if len(vio_paths) <= 25:
                print(f"VIOLATION property={self.pid} replay={path} clause={clause}")
        if len(vio_paths) > 25:
            print(f"... {len(vio_paths) - 25} further violations (replay files written)")
        cov = {
            "states": max(self.states, 0),
            "transitions": max(self.transitions, 0),
            "traces_validated_against_impl": self.traces,
            "samples": self.samples or [{"note": "no case reached the sampler"}],
            "evaluations": self.evaluations,
            "distinct_nontrivial": len(self.nontrivial),
            "rule": self.rule,
            "exhaustive": self.exhaustive,
            "tlc_runs": self.tlc_runs,
            "known_findings_hit": {k: v[1] for k, v in known_hits.items()},
            "machinery_notes": self.machinery[:20],
        }
        cov.update(self.extra)
        ev = {
            "property_id": self.pid, "tier": self.tier, "seed": int(self.seed), "level": self.level,
            "coverage": cov, "assumptions": self.assumptions, "wall_s": round(time.time() - self.t0, 2),
            "violations": len(vio_paths),
        }
        with open(os.path.join(EVID, self.pid + ".json"), "w") as f:
            json.dump(ev, f, indent=1, default=str)
        print(f"{self.pid} [{self.tier}] states={self.states} transitions={self.transitions} traces={self.traces} "
              f"cases={self.evaluations} nontrivial={len(self.nontrivial)} known={sum(v[1] for v in known_hits.values())} "
              f"violations={len(vio_paths)} wall={ev['wall_s']}s")
        return 1 if vio_paths else 0


# ---------------------------------------------------------------------------------------------
# parallel replay
# ---------------------------------------------------------------------------------------------
_RUN_SCRATCH = {"dir": None, "pid": None}


def run_scratch():
    """one scratch directory per check run for everything dask itself spills (the partd directories of disk shuffles are not
    removed by dask): announced through DASK_TEMPORARY_DIRECTORY so that worker and child interpreters use it, removed when the
    process that created it ends"""
    import atexit
    import shutil
    import tempfile
    d = os.environ.get("VERIF_RUN_SCRATCH")
    if not d or not os.path.isdir(d):
        d = tempfile.mkdtemp(prefix="verif_run.", dir=os.environ.get("VERIF_SCRATCH"))
        os.environ["VERIF_RUN_SCRATCH"] = d
        _RUN_SCRATCH.update(dir=d, pid=os.getpid())

        def _cleanup():
            if os.getpid() == _RUN_SCRATCH["pid"]:
                shutil.rmtree(d, ignore_errors=True)
        atexit.register(_cleanup)
    os.environ["DASK_TEMPORARY_DIRECTORY"] = d
    if "dask" in sys.modules:
        import dask
        dask.config.set(temporary_directory=d)
    return d


def _init_worker():
    os.environ[GUARD] = "1"
    if os.environ.get("DASK_TEMPORARY_DIRECTORY"):
        import dask as _dask
        _dask.config.set(temporary_directory=os.environ["DASK_TEMPORARY_DIRECTORY"])
    os.environ.setdefault("PYTHONHASHSEED", "0")
    import warnings
    warnings.filterwarnings("ignore")
    import dask
    dask.config.set(scheduler="sync")


def _run_chunk(args):
    fn_mod, fn_name, chunk = args
    import importlib
    fn = getattr(importlib.import_module(fn_mod), fn_name)
    out = []
    for item in chunk:
        try:
            out.append(fn(item))
        except Exception as ex:       # the replay function itself failed: machinery
            out.append({"__machinery__": f"{type(ex).__name__}: {ex}", "tb": traceback.format_exc()[-1500:], "case": item})
    return out


def pmap(fn, items, workers=None, chunk=None):
    """Run module-level function fn over items in worker processes (fork), keeping order."""
    items = list(items)
    if not items:
        return []
    workers = workers or tlc.NCPU
    if chunk is None:
        chunk = max(1, min(64, len(items) // (workers * 4) or 1))
    chunks = [items[i:i + chunk] for i in range(0, len(items), chunk)]
    ctx = mp.get_context("fork")
    with cf.ProcessPoolExecutor(max_workers=workers, mp_context=ctx, initializer=_init_worker) as ex:
        res = list(ex.map(_run_chunk, [(fn.__module__, fn.__name__, c) for c in chunks]))
    return [r for c in res for r in c]


def assert_repo():
    import dask_expr
    p = os.path.realpath(dask_expr.__file__)
    if not p.startswith("/repo/"):
        raise tlc.MachineryError("dask_expr is not imported from /repo: " + p)


def ndjson(rows):
    return "".join(json.dumps(r, separators=(",", ":")) + "\n" for r in rows)

"""C09 - decided on the plan walk (harness/vx/walk.py, spec/PlanWalkOps.tla, spec/PlanWalkTrace.tla)."""
from . import walk


def run(tier="quick", seed=0, replay_path=None):
    return walk.run_for("C09", tier, seed, replay_path)

"""C08 - expression names are deterministic and collision-free.

spec/Names.tla: name = prefix(class) + token(operands) with a process-wide one-object-per-name table; TLC enumerates
the collision candidates for the class -> prefix map OBSERVED on the real code. spec/NamesTrace.tla validates: the
same query has one name (and one set of task keys) over construction orders, unrelated history, fresh interpreters and
hash seeds; within a build one name <=> one fingerprint (fingerprints are computed without tokenize) and one task per
key over all graphs; realised candidates do not alias.
"""
from __future__ import annotations

import hashlib
import json
import os
import random
import shutil
import subprocess
import sys
import tempfile

from . import common, rel, tlc

TIERS = {
    "quick": dict(sample=140, sim_num=40, variations=120, seeds=(1, 12345)),
    "thorough": dict(sample=1500, sim_num=120, variations=1500, seeds=(1, 7, 12345, 99991)),
}
UUID_PREFIXES = ("zpartd-", "shuffle-partition-", "barrier-")      # DiskShuffle uses a fresh uuid per graph (deliberate)


# ------------------------------------------------------------------------------ fingerprints (no tokenize)
def _h(s):
    return hashlib.sha1(s.encode(), usedforsecurity=False).hexdigest()[:16]


def fp_value(v, depth=0):
    import numpy as np
    import pandas as pd
    from dask_expr._core import Expr
    from dask_expr._util import _BackendData
    if isinstance(v, Expr):
        return "E:" + fingerprint(v)
    if isinstance(v, _BackendData):
        return fp_value(v._data, depth)
    if isinstance(v, pd.DataFrame):
        return "DF:" + _h(repr(list(v.columns)) + repr([str(d) for d in v.dtypes]) + repr(v.index.name) + str(pd.util.hash_pandas_object(v, index=True).sum()))
    if isinstance(v, pd.Series):
        return "S:" + _h(repr(v.name) + str(v.dtype) + repr(v.index.name) + str(pd.util.hash_pandas_object(v, index=True).sum()))
    if isinstance(v, pd.Index):
        return "I:" + _h(repr(v.name) + str(v.dtype) + str(pd.util.hash_pandas_object(v).sum()))
    if isinstance(v, np.ndarray):
        return "A:" + _h(str(v.dtype) + str(v.shape) + hashlib.sha1(np.ascontiguousarray(v).tobytes(), usedforsecurity=False).hexdigest())
    if isinstance(v, (list, tuple)) and depth < 5:
        return type(v).__name__ + "[" + ",".join(fp_value(x, depth + 1) for x in v) + "]"
    if isinstance(v, (set, frozenset)):
        return "set{" + ",".join(sorted(fp_value(x, depth + 1) for x in v)) + "}"
    if isinstance(v, dict) and depth < 5:
        return "dict{" + ",".join(sorted(fp_value(k, depth + 1) + ":" + fp_value(x, depth + 1) for k, x in v.items())) + "}"
    if callable(v):
        return "fn:" + getattr(v, "__module__", "") + "." + getattr(v, "__qualname__", type(v).__name__) + (":" + fp_value(getattr(v, "frames", None) and [f for f in v.frames], depth + 1) if hasattr(v, "frames") else "")
    if isinstance(v, float) and v != v:
        return "nan"
    return type(v).__name__ + ":" + repr(v)


_FP = {}      # kept for API compatibility (cleared per corpus); the cache itself lives on the expression object


def fingerprint(e):
    d = e.__dict__
    if "_vx_fp" not in d:
        d["_vx_fp"] = _h(type(e).__module__ + "." + type(e).__qualname__ + "(" + ";".join(fp_value(o) for o in e.operands) + ")")
    return d["_vx_fp"]


def _mask(t, depth=0):
    """task with every reference to a uuid-named key (DiskShuffle's partd file / barrier) replaced by a placeholder"""
    if isinstance(t, tuple):
        if t and isinstance(t[0], str) and t[0].startswith(UUID_PREFIXES):
            return ("<uuid-key>",) + tuple(x for x in t[1:] if isinstance(x, int))
        return tuple(_mask(x, depth + 1) for x in t) if depth < 8 else t
    if isinstance(t, list):
        return [_mask(x, depth + 1) for x in t] if depth < 8 else t
    return t


# ------------------------------------------------------------------------------ corpus
def build_case(c, scratch):
    if c.get("setcols") is not None:
        # the same mapping object given to rename(columns=) and to the .columns setter of an equal frame
        import dask_expr as dx
        pdf = rel.make_tables(0)["T1"]
        d = {"b": "x", "a": "y", "k": "z"}
        df = dx.from_pandas(pdf, npartitions=2)
        if c["setcols"] == "rename":
            return df.rename(columns=d)
        df.columns = d
        return df
    if c.get("callable_instance"):
        # from_map with a callable OBJECT that has no __name__ (a class instance with __call__)
        import dask_expr as dx
        tabs = rel.make_tables(0)
        pdf = tabs["T1"]
        pieces = [pdf.iloc[:4], pdf.iloc[4:]]
        return dx.from_map(rel._Pieces(pieces, named=False), [0, 1], meta=pdf.iloc[:0]) + 1
    tabs = rel.make_tables(c["dseed"])
    lay = {"T1": ("cuts", c["cuts1"], False), "T2": ("from_pandas", 1)} if c.get("layout") == "B" else \
          {"T1": ("from_pandas", c["np1"]), "T2": ("from_pandas", c["np2"])}
    env = rel.dask_sources(tabs, lay)
    return rel.build(c["q"], env, "dask")


def corpus_facts(cases, order, warmup, scratch):
    """build every case (in the given order), return per case: root name, nodes (fp, name, cls), graph keys+tokens"""
    from dask.base import tokenize
    import dask_expr as dx
    import pandas as pd
    _FP.clear()
    if warmup:
        # unrelated queries first (process-wide tables and caches are not empty)
        w = dx.from_pandas(pd.DataFrame({"p": range(30), "q": range(30)}), npartitions=3)
        for i in range(warmup):
            ((w + i)[w.p > i % 7].q.sum()).optimize()
            w.sort_values("q", ascending=bool(i % 2)).optimize() if i % 10 == 0 else None
    idx = list(range(len(cases)))
    if order == "reversed":
        idx = idx[::-1]
    elif order == "shuffled":
        random.Random(5).shuffle(idx)
    out = {}
    for i in idx:
        c = cases[i]
        try:
            coll = build_case(c, scratch)
            nodes = []
            for n, e in enumerate(coll.expr.walk()):
                nodes.append([fingerprint(e), e._name, type(e).__name__, e._name.rsplit("-", 1)[0], len(e.operands)])
            opt = coll.optimize()
            onodes = [[fingerprint(e), e._name, type(e).__name__, e._name.rsplit("-", 1)[0], len(e.operands)] for e in opt.expr.walk()]
            g = opt.__dask_graph__()
            keys = []
            for k, t in g.items():
                ks = repr(k)
                if any(p in ks for p in UUID_PREFIXES):
                    continue
                try:
                    keys.append([ks, tokenize(_mask(t))])
                except Exception:
                    keys.append([ks, "untokenizable"])
            out[c["cid"]] = {"root": coll._name, "optroot": opt._name, "nodes": nodes, "onodes": onodes, "keys": sorted(keys),
                             "rootcls": type(coll.expr).__name__}
        except Exception as ex:
            out[c["cid"]] = {"err": type(ex).__name__}
    return out


def parquet_rewrite(scratch):
    """same path, same file names, different rows: the reader's name must change (it tokenizes file checksums)"""
    import numpy as np
    import pandas as pd
    import dask_expr as dx
    d = os.path.join(scratch, "pq_rewrite")
    os.makedirs(d, exist_ok=True)
    res = []
    for rnd_, n in ((1, 20), (2, 50)):
        pdf = pd.DataFrame({"a": np.arange(n) * rnd_, "b": np.arange(n) % 3})
        for i in range(2):
            pdf.iloc[i * n // 2:(i + 1) * n // 2].to_parquet(os.path.join(d, f"part.{i}.parquet"))
        x = dx.read_parquet(d)
        fp = _h("|".join(hashlib.sha1(open(os.path.join(d, f), "rb").read(), usedforsecurity=False).hexdigest() for f in sorted(os.listdir(d))))
        res.append({"name": x._name, "fp": fp, "len": int(len(x)), "rows": n})
        keep = x          # the earlier collection stays alive while the files are rewritten
    return res


def child_main(path):
    import warnings
    warnings.filterwarnings("ignore")
    common._init_worker()
    with open(path) as f:
        job = json.load(f)
    scratch = tempfile.mkdtemp(prefix="verif_c08.")
    try:
        facts = corpus_facts(job["cases"], job["order"], job["warmup"], scratch)
        extra = {"parquet": parquet_rewrite(scratch)} if job.get("parquet") else {}
        # realise collision candidates handed over by the driver
        alias = []
        if job.get("candidates"):
            alias = realise_candidates(job["cases"], job["candidates"], scratch)
    finally:
        shutil.rmtree(scratch, ignore_errors=True)
    print("FACTS " + json.dumps({"facts": facts, "extra": extra, "alias": alias}))


def realise_candidates(cases, cands, scratch):
    """for a candidate pair (A, B): take nodes of class A found in the corpus and construct B with the same operands"""
    import dask_expr
    from dask_expr._core import Expr
    classes = {}
    stack = [Expr]
    while stack:
        k = stack.pop()
        for s in k.__subclasses__():
            if s.__name__ not in classes:
                classes[s.__name__] = s
                stack.append(s)
    out, done = [], set()
    for c in cases:
        try:
            coll = build_case(c, scratch)
        except Exception:
            continue
        for e in list(coll.expr.walk()) + list(coll.optimize().expr.walk()):
            a = type(e).__name__
            for cand in cands:
                if cand["a"] != a or (a, cand["b"]) in done or cand["b"] not in classes:
                    continue
                B = classes[cand["b"]]
                # only classes that take the SAME operands can be given equal operands through the API
                if list(B._parameters) != list(type(e)._parameters):
                    continue
                try:
                    obj = B(*e.operands)
                except Exception:
                    continue
                done.add((a, cand["b"]))
                out.append({"a": a, "b": cand["b"], "same_name": obj._name == e._name, "built": type(obj).__name__, "asked": cand["b"], "name": obj._name[:60]})
    return out


def run_child(job, hashseed):
    scratch = tempfile.mkdtemp(prefix="verif_c08job.")
    try:
        p = os.path.join(scratch, "job.json")
        with open(p, "w") as f:
            json.dump(job, f)
        env = dict(os.environ, PYTHONHASHSEED=str(hashseed), DASK_EXPR_VERIF="1", PYTHONPATH=os.path.join(common.ROOT, "harness"))
        r = subprocess.run([sys.executable, "-m", "vx.c08", "--child", p], env=env, capture_output=True, text=True, timeout=3000)
        for ln in r.stdout.splitlines():
            if ln.startswith("FACTS "):
                return json.loads(ln[6:])
        raise tlc.MachineryError("C08 child failed: " + r.stderr[-1500:])
    finally:
        shutil.rmtree(scratch, ignore_errors=True)


def variations(q, rnd):
    """single-parameter variations of a program: one literal / label / parameter changed"""
    out = []

    def walk(node, path):
        for k, v in node.items():
            if k == "c":
                for i, ch in enumerate(v):
                    walk(ch, path + [("c", i)])
            elif k in ("v", "n") and isinstance(v, int):
                out.append((path, k, v + 1))
            elif k == "how":
                out.append((path, k, "left" if v != "left" else "inner"))
            elif k == "asc":
                out.append((path, k, not v))
            elif k == "f" and v in ("sum", "count", "min", "max", "mean"):
                out.append((path, k, "max" if v != "max" else "min"))
            elif k == "f" and v in ("gt", "le", "ne", "eq", "lt"):
                out.append((path, k, "ge"))
            elif k == "suffixes":
                out.append((path, k, ["_p", "_q"]))
            elif k in ("pred", "e") and isinstance(v, dict):
                walk(v, path + [(k, None)])
            elif k in ("a", "b", "l", "r") and isinstance(v, dict):
                walk(v, path + [(k, None)])
    walk(q, [])
    res = []
    for path, k, nv in out:
        q2 = json.loads(json.dumps(q))
        node = q2
        for key, i in path:
            node = node[key][i] if i is not None else node[key]
        node[k] = nv
        res.append(q2)
    rnd.shuffle(res)
    return res[:3]


def run(tier="quick", seed=0, replay_path=None):
    import concurrent.futures as cf
    chk = common.Check("C08", tier, seed)
    t = TIERS[tier]
    rnd = random.Random(seed)
    qs = []
    for focus in ("general", "filter", "project", "partitioned"):
        qs += rel.gen_queries(focus, 2, seed=seed, sample=t["sample"] // 4, sim_num=t["sim_num"] // 4, sim_depth=4, chk=chk)
    cases = []
    for c in qs:
        base = {"q": c["q"], "dseed": rnd.randrange(3), "np1": rnd.choice([2, 3]), "np2": rnd.choice([1, 2]), "cuts1": [3, 3, 6], "layout": "B" if rnd.random() < 0.3 else "A"}
        cases.append(base)
    nvar = 0
    for c in list(cases):
        if nvar >= t["variations"]:
            break
        for q2 in variations(c["q"], rnd):
            cases.append(dict(c, q=q2, variation=True))
            nvar += 1
        # equal-looking inputs with different data / different layout
        cases.append(dict(c, dseed=c["dseed"] + 7, variation=True))
        nvar += 1
    # partition-count-raising repartitions of one frame to different targets (their helper keys must not collide)
    src = {"op": "src", "t": "T1"}
    for n in (4, 5, 6, 7):
        cases.append({"q": {"op": "repart", "n": n, "c": [src]}, "dseed": 0, "np1": 2, "np2": 1, "cuts1": [3, 3, 6], "layout": "B"})
        cases.append({"q": {"op": "repart", "n": n, "c": [{"op": "elem", "f": "add1", "c": [src]}]}, "dseed": 0, "np1": 2, "np2": 1, "cuts1": [3, 3, 6], "layout": "B"})
    cases.append({"q": {"op": "from_map_callable_instance"}, "callable_instance": True, "dseed": 0})
    cases.append({"q": {"op": "api_rename"}, "setcols": "rename", "dseed": 0, "expect_cls": "RenameFrame"})
    cases.append({"q": {"op": "api_setcolumns"}, "setcols": "set", "dseed": 0, "expect_cls": "ColumnsSetter"})
    for i, c in enumerate(cases):
        c["cid"] = i
    chk.evaluations = len(cases)
    common.assert_repo()
    jobs = [({"cases": cases, "order": "forward", "warmup": 0, "parquet": True}, 0),
            ({"cases": cases, "order": "reversed", "warmup": 0}, 0),
            ({"cases": cases, "order": "shuffled", "warmup": 200}, 0)] + [({"cases": cases, "order": "forward", "warmup": 0}, s) for s in t["seeds"]]
    with cf.ThreadPoolExecutor(max_workers=8) as ex:
        builds = list(ex.map(lambda js: run_child(*js), jobs))
    # design-level model on the observed class -> prefix map
    prefix, arity = {}, {}
    for b in builds[:1]:
        for f in b["facts"].values():
            for fp, name, cls, pre, nops in f.get("nodes", []) + f.get("onodes", []):
                prefix.setdefault(cls, pre)
                arity.setdefault(cls, min(nops, 2))
    shared = {}
    for cls, pre in prefix.items():
        shared.setdefault(pre, []).append(cls)
    interesting = sorted({c for cl in shared.values() if len(cl) > 1 for c in cl})[:10] or sorted(prefix)[:3]
    if len(interesting) < 2:
        interesting = sorted(prefix)[:3]
    q = lambda s: json.dumps(s)
    d = {"Classes": "{" + ", ".join(q(c) for c in interesting) + "}",
         "Prefix": "(" + " @@ ".join(f"({q(c)} :> {q(prefix[c])})" for c in interesting) + ")",
         "Arity": "(" + " @@ ".join(f"({q(c)} :> {max(1, arity[c])})" for c in interesting) + ")"}
    cfg = tlc.cfg(spec="Spec", defs=d, invariants=["NoAliasing"])
    r = tlc.run("Names", cfg, defs=tlc.mcdefs(d), extra='ASSUME EmitCandidates("cands.json")', outfiles=["cands.json"])
    chk.add_tlc("Names design model on the observed class->prefix map", r)
    cands = r.outfiles.get("cands.json", {}).get("cands", [])
    chk.extra["classes_observed"] = len(prefix)
    chk.extra["prefixes_shared_by_several_classes"] = {p: cl for p, cl in shared.items() if len(cl) > 1}
    chk.extra["collision_candidates"] = len(cands)
    chk.extra["design_model_aliasing_possible"] = r.violated == "NoAliasing"
    alias = run_child({"cases": cases[:60], "order": "forward", "warmup": 0, "candidates": cands}, 0)["alias"] if cands else []
    # trace lines
    lines = []
    meta = {}

    def add(ln, info):
        ln["tid"] = len(lines)
        meta[ln["tid"]] = info
        lines.append(ln)

    names = {}
    num = lambda s: names.setdefault(s, len(names))
    ref = builds[0]["facts"]
    for c in cases:
        cid = str(c["cid"])
        per = [b["facts"].get(cid, {}) for b in builds]
        if any("err" in p or not p for p in per):
            continue
        add({"kind": "det", "names": [num(p["root"]) for p in per]}, {"case": c, "what": "root name"})
        add({"kind": "det", "names": [num(p["optroot"]) for p in per]}, {"case": c, "what": "optimized root name"})
        add({"kind": "det", "names": [num(json.dumps([n[1] for n in p["nodes"]])) for p in per]}, {"case": c, "what": "node names"})
        add({"kind": "det", "names": [num(json.dumps(p["keys"])) for p in per]}, {"case": c, "what": "task keys and tokens of the optimized graph"})
    # injectivity within the first build: group nodes of ALL cases by name
    byname, bykey = {}, {}
    casesof = {}
    for c in cases:
        f = ref.get(str(c["cid"]), {})
        for fp, name, cls, pre, nops in f.get("nodes", []) + f.get("onodes", []):
            byname.setdefault(name, set()).add(fp)
            casesof.setdefault(name, c)
        for k, tok in f.get("keys", []):
            bykey.setdefault(k, set()).add(tok)
            casesof.setdefault("key:" + k, c)
    for name, fps in byname.items():
        add({"kind": "inj", "fps": [num(x) for x in sorted(fps)]}, {"case": casesof[name], "what": "name " + name[:50]})
    for k, toks in bykey.items():
        add({"kind": "key", "toks": [num(x) for x in sorted(toks)]}, {"case": casesof["key:" + k], "what": "key " + k[:60]})
    pq = builds[0]["extra"].get("parquet", [])
    if len(pq) == 2:
        same = pq[0]["name"] == pq[1]["name"]
        add({"kind": "inj", "fps": [num(pq[0]["fp"]), num(pq[1]["fp"] if same else pq[0]["fp"])]},
            {"case": {"q": {"op": "parquet_rewrite"}, "parquet": pq}, "what": "read_parquet name after the files were rewritten in place"})
        add({"kind": "det", "names": [pq[1]["len"], pq[1]["rows"]]}, {"case": {"q": {"op": "parquet_rewrite"}, "parquet": pq}, "what": "len() of the re-read dataset"})
    # constructor-level aliases between classes that cannot be given equal operands through the public API are
    # reported, not judged (GroupByChunk always carries `by` operands a plain Chunk never has, ...)
    chk.extra["constructor_level_aliases_reported"] = [a["a"] + "~" + a["b"] for a in alias if a["same_name"]]
    # API-level: an expression built through the public API must come back as the class that API builds
    for c in cases:
        if c.get("expect_cls"):
            f = ref.get(str(c["cid"]), {})
            if "rootcls" in f:
                add({"kind": "alias", "same_name": True, "built": f["rootcls"], "asked": c["expect_cls"]}, {"case": c, "what": "class of the expression the API call returned"})
    cfg = tlc.cfg(init="Init", next="Next", postcondition="AllConsumed")
    results, rejects, _, _ = tlc.validate("NamesTrace", lines, cfg_text=cfg, chunk=3000, parallel=6)
    for r_ in results:
        chk.add_tlc("NamesTrace", r_)
    chk.traces = len(lines)
    for ln in lines:
        info = meta[ln["tid"]]
        chk.note_nontrivial(common.case_hash([info["what"], info["case"].get("q")]))
        if ln["tid"] in rejects:
            c = info["case"]
            chk.fail(rejects[ln["tid"]], {"q": c.get("q", {"op": "none"}), "what": info["what"], "case": {k: v for k, v in c.items() if k != "cid"},
                                          "ops": rel.ops_of(c["q"]) if c.get("q", {}).get("op") not in (None, "parquet_rewrite", "candidate", "from_map_callable_instance", "api_rename", "api_setcolumns") else [], "pair": c.get("pair", {})}, {})
    chk.rule = ("corpus = TLC-generated programs of four QueryGen foci + single-parameter variations (a literal, label, join kind, aggregation, comparison, sort direction, suffixes) + "
                "equal-looking inputs with other data + repartitions of one frame to several targets; built in 3 orders/histories in one interpreter configuration and in fresh interpreters "
                f"with PYTHONHASHSEED in {t['seeds']}; every node of the logical and optimized plan and every task key (DiskShuffle's uuid keys excepted) is compared. "
                "non-trivial = every compared name / key group")
    for ln in lines[7:4000:1400]:
        chk.sample({"line": {k: v for k, v in ln.items() if k != "tid"}, "what": meta[ln["tid"]]["what"]})
    chk.assumptions += ["fingerprints: class qualname + canonical structural dump of the operands (pandas data by hash_pandas_object, sets sorted) - independent of dask.base.tokenize",
                        "DiskShuffle internal keys carry a fresh uuid per graph by design and are excluded (finding F15 in DESIGN.md)"]
    return chk.finish()


if __name__ == "__main__":
    if len(sys.argv) >= 3 and sys.argv[1] == "--child":
        child_main(sys.argv[2])

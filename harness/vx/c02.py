"""C02 - results equal the pandas meaning of the query for every partitioning.

Programs: spec/QueryGen.tla focus "partitioned" (reductions, groupby aggregations, joins of every kind, concat, sort /
set_index, cumulative, shift / diff / ffill, drop_duplicates / unique / value_counts / nlargest, aligned binary ops ...).
Layouts: TLC-enumerated (QueryGen!Layouts): every cut of the first table's rows into <= 4 partitions incl. empty ones,
with known and with unknown divisions, and an independently chosen layout of the second table.
Reference = pandas on the concatenated input (the property's own definition); TLC validates every layout's result
against it with the acceptance relation of spec/Rel.tla (order / index labels only where the specification defines
them; explicit refusals of window operations accepted).
"""
from __future__ import annotations

import json
import random

from . import common, cum, rel, tlc

TIERS = {
    "quick": dict(depth=2, sample=150, sim_num=40, sim_depth=3, nrows=6, maxcuts=3, layouts_deep=6),
    "thorough": dict(depth=2, sample=1500, sim_num=120, sim_depth=3, nrows=7, maxcuts=3, layouts_deep=24),
}
SKIP_OPS = {"tail", "parts", "repart", "shuffle"}     # no pandas meaning / layout-only operators


def replay(case):
    q, sc = case["q"], case["sc"]
    tabs = rel.make_tables(case["dseed"], nrows=(case["nrows"], 5), presorted=case.get("presorted", False))
    ref = rel.observe(lambda: rel.build(q, tabs, "pandas"))
    results = [ref]
    obs = []
    for lay in case["layouts"]:
        cuts, known, np2 = lay["cuts"], lay["known"], lay["np2"]
        try:
            env = rel.dask_sources(tabs, {"T1": ("cuts", cuts, known), "T2": ("from_pandas", np2)})
            coll = rel.build(q, env, "dask")
            # the partitions of the optimized collection, concatenated: what persist() / to_delayed() / any
            # partition-wise consumer sees (compute() would first collapse everything into one partition)
            r = rel.observe(lambda: rel.run_stage(coll, "fused"))
        except Exception as ex:
            r = {"ok": False, "err": type(ex).__name__, "msg": str(ex)[:150]}
        results.append(r)
        obs.append({"label": "cuts=%s/%s/np2=%d" % ("-".join(map(str, cuts)), "known" if known else "unknown", np2), "res": r, "ord": True, "idx": True})
    scale = rel.finalize(results)
    msgs = {o["label"]: (o["res"].get("err", "") + ": " + o["res"].get("msg", ""))[:160] for o in obs if not o["res"]["ok"]}
    strip = lambda res: {k: v for k, v in res.items() if k in ("ok", "err", "t")}
    return {"tid": case["tid"], "kind": "query", "q": q, "sc": sc, "scale": scale, "refusals": True, "ref": strip(ref),
            "obs": [dict(o, res=strip(o["res"])) for o in obs], "msgs": msgs}


def cum_input_allnull_partition(case, lay):
    """diagnostic for failing cases that contain a cumulative operator: does the INPUT of that operator have a
    non-empty partition in which some column holds only NULLs? (known finding F13)"""
    import dask
    try:
        node = case["q"]
        targets = []
        while "c" in node:
            if node["op"] == "cum":
                targets.append(node["c"][0])
            node = node["c"][0]
        tabs = rel.make_tables(case["dseed"], nrows=(case["nrows"], 5), presorted=case.get("presorted", False))
        env = rel.dask_sources(tabs, {"T1": ("cuts", lay["cuts"], lay["known"]), "T2": ("from_pandas", lay["np2"])})
        for target in targets:
            x = rel.build(target, env, "dask")
            low = x.expr.lower_completely()
            for p in dask.get(low.__dask_graph__(), low.__dask_keys__()):
                if len(p) and getattr(p, "ndim", 1) == 2 and bool(p.isna().all().any()):
                    return True
        return False
    except Exception:
        return False


def _unsorted_all_degenerate(tr, c, flags):
    """True iff every observation of the trace that is NOT sorted by the program's sort key belongs to a layout whose
    sort input has a partition without non-null key (F27)"""
    q = c["q"]
    node = q
    while node["op"] in ("filter", "dropna", "head"):
        node = node["c"][0]
    cols = tr["sc"]["cols"]
    if node["op"] == "sort":
        pos = [1 + cols.index(k) for k in node["by"]]
        asc = bool(node["asc"])
    else:
        pos, asc = [0], True
    NULL = rel.NULL

    def leq(r, s):
        for p in pos:
            if r[p] == s[p]:
                continue
            if s[p] == NULL:
                return True
            if r[p] == NULL:
                return False
            return r[p] <= s[p] if asc else r[p] >= s[p]
        return True

    for o, fl in zip(tr["obs"], flags):
        if not o["res"]["ok"]:
            continue
        rows = [r for r in o["res"]["t"]["rows"] if r[pos[0]] != NULL]
        unsorted = any(not leq(rows[i], rows[i + 1]) for i in range(len(rows) - 1))
        if unsorted and not fl:
            return False
    return True


def run(tier="quick", seed=0, replay_path=None):
    chk = common.Check("C02", tier, seed)
    t = TIERS[tier]
    rnd = random.Random(seed)
    if replay_path:
        with open(replay_path) as f:
            c = json.load(f)["case"]
        cases = [c]
    else:
        # layouts enumerated by TLC
        cfg = tlc.cfg(spec="Spec", constants={"MaxOps": 0, "Focus": '"partitioned"'})
        r = tlc.run("QueryGen", cfg, workers=1, extra=f'ASSUME EmitLayouts("layouts.ndjson", {t["nrows"]}, {t["maxcuts"]})', outfiles=["layouts.ndjson"])
        chk.add_tlc("QueryGen layouts", r)
        all_cuts = [list(x["cuts"]) for x in r.outfiles["layouts.ndjson"]]
        chk.extra["layouts_enumerated"] = len(all_cuts)
        qs = rel.gen_queries("partitioned", t["depth"], seed=seed, sample=t["sample"], sim_num=t["sim_num"], sim_depth=t["sim_depth"], chk=chk)
        qs = [c for c in qs if not (set(rel.ops_of(c["q"])) & SKIP_OPS) and c["depth"] >= 1]
        cases = []
        for c in qs:
            if c["depth"] <= 1:
                # every cut (exhaustive), unknown divisions; known divisions for the cuts without empty partitions
                lays = [{"cuts": cu, "known": False, "np2": 1 + (i % 2)} for i, cu in enumerate(all_cuts)]
                lays += [{"cuts": cu, "known": True, "np2": 2} for cu in all_cuts
                         if len(set(cu)) == len(cu) and 0 not in cu and t["nrows"] not in cu]
            else:
                lays = [{"cuts": rnd.choice(all_cuts), "known": rnd.random() < 0.4, "np2": rnd.choice([1, 2, 3])} for _ in range(t["layouts_deep"])]
                for l in lays:
                    if l["known"] and (len(set(l["cuts"])) != len(l["cuts"]) or 0 in l["cuts"] or t["nrows"] in l["cuts"]):
                        l["known"] = False
            if "mergeasof" in rel.ops_of(c["q"]):
                # merge_asof refuses unknown divisions ("input must be sorted!"): every cut with known divisions, several layouts of the right table
                lays = [{"cuts": cu, "known": True, "np2": n2} for cu in all_cuts if len(set(cu)) == len(cu) and 0 not in cu and t["nrows"] not in cu for n2 in (1, 2, 3)]
            cases.append({"q": c["q"], "sc": c["sc"], "dseed": rnd.randrange(4), "nrows": t["nrows"], "layouts": lays})
            if {"sort", "setindex"} & set(rel.ops_of(c["q"])):
                # the same program on a table already ordered by k: presorted fast paths, equal keys across borders
                cases.append({"q": c["q"], "sc": c["sc"], "dseed": rnd.randrange(4), "nrows": t["nrows"], "layouts": lays, "presorted": True})
    for i, c in enumerate(cases):
        c["tid"] = i
    chk.evaluations = sum(len(c["layouts"]) for c in cases)
    chk.rule = (f"programs = reachable states of spec/QueryGen.tla focus partitioned (all depth 1, seeded sample of depth 2, TLC -simulate deeper); layouts = QueryGen!Layouts({t['nrows']}, {t['maxcuts']}) "
                "enumerated by TLC: every depth-1 program under EVERY layout (unknown divisions; known divisions where no partition is empty), deeper programs under seeded layouts; "
                "T2 layout chosen independently. non-trivial = a (program, layout) pair with more than one partition whose pandas reference computed")
    common.assert_repo()
    traces = common.pmap(replay, cases, chunk=1)
    good = []
    for c, tr in zip(cases, traces):
        if "__machinery__" in tr:
            chk.machinery.append(tr["__machinery__"] + " :: " + json.dumps(c["q"])[:200])
            continue
        good.append(tr)
        if tr["ref"]["ok"]:
            for l in c["layouts"]:
                if l["cuts"]:
                    chk.note_nontrivial(common.case_hash([c["q"], l]))
    if len(chk.machinery) > 0.03 * len(cases):
        raise tlc.MachineryError(f"too many replay failures: {chk.machinery[:3]}")
    cfg = tlc.cfg(init="Init", next="Next", postcondition="AllConsumed")
    slim = [{k: v for k, v in tr.items() if k != "msgs"} for tr in good]
    results, rejects, _, _ = tlc.validate("RelTrace", slim, cfg_text=cfg, chunk=12, parallel=12)
    for r in results:
        chk.add_tlc("RelTrace", r)
    chk.traces = sum(len(tr["obs"]) for tr in good)
    bycase = {c["tid"]: c for c in cases}
    for tr in good:
        for clause in (rejects[tr["tid"]].split(";") if tr["tid"] in rejects else []):
            c = bycase[tr["tid"]]
            label, _, cl = clause.rpartition(":")
            lay = next((l for l, o in zip(c["layouts"], tr["obs"]) if o["label"] == label), None)
            # report every failing layout of this program? the validator names the first; keep the case small
            pub = {"q": c["q"], "sc": c["sc"], "dseed": c["dseed"], "nrows": c["nrows"], "presorted": c.get("presorted", False), "layouts": [lay] if lay else c["layouts"][:1],
                   "ops": rel.ops_of(c["q"]), "layout": lay, "groupby_fs": rel.groupby_fs(c["q"]), "errmsg": tr["msgs"].get(label, "")}
            if cl == "Sorted" or (not label and clause == "Sorted"):
                # which layouts of this program feed the sort a partition without any non-null key? (F27)
                flags = []
                tabs = rel.make_tables(c["dseed"], nrows=(c["nrows"], 5), presorted=c.get("presorted", False))
                for l in c["layouts"]:
                    env = rel.dask_sources(tabs, {"T1": ("cuts", l["cuts"], l["known"]), "T2": ("from_pandas", l["np2"])})
                    flags.append(rel.sort_input_nullkey_partition(c["q"], env))
                # the Sorted clause is evaluated over all layouts of the program: attribute it to F27 only if every
                # layout whose observation is unsorted is degenerate -> re-check sortedness per layout here
                pub["layouts"] = [l for l, fl in zip(c["layouts"], flags) if not fl][:3]
                pub["sort_input_nullkey_partition"] = any(flags)
                pub["unsorted_layouts_all_degenerate"] = _unsorted_all_degenerate(tr, c, flags)
            if "cum" in pub["ops"] and lay:
                pub["cum_input_allnull_partition"] = cum_input_allnull_partition(c, lay)
            chk.fail(cl if label else clause, pub, {"label": label, "msg": tr["msgs"].get(label, ""), "n_layouts": len(c["layouts"])})
    chk.extra["pandas_reference_failed"] = sum(1 for tr in good if not tr["ref"]["ok"])
    for tr in good[2:400:150]:
        chk.sample({"q": tr["q"], "sc": tr["sc"], "labels": [o["label"] for o in tr["obs"]][:5], "ref_rows": tr["ref"].get("t", {}).get("rows", [])[:4]})
    chk.assumptions += ["pandas (3.0.5) on the concatenated input is the definition of the expected value, as the property states",
                        "float64 columns with NaN as NULL; other dtypes are not part of this tier",
                        "head is requested with npartitions=-1; tail / partitions[...] have no pandas meaning and are excluded"]
    if not replay_path:
        chk.traces += cum.run_component(chk, tier)
    return chk.finish()

"""C14 - blockwise fusion only changes task granularity.

spec/Fusion.tla: design-level model of _fusion_pass / Fused._task over all small plan DAGs (TLC explores every
iteration order of the sets the code walks). Its enumerated plan shapes are realised as real expression DAGs (shared
nodes, broadcast scalars, mixed partition counts, partition-wise ops between non-partition-wise stages), the
TLC-generated query programs of QueryGen are added, and every plan is additionally re-optimized on top of an already
optimized sub-plan (nested groups). spec/FusionTrace.tla validates fuse on vs off: npartitions, divisions, schema and
the contents of every output partition.
"""
from __future__ import annotations

import json
import random

from . import common, rel, tlc, walk

TIERS = {
    "quick": dict(N=3, sample_shapes=400, qdepth=2, qsample=160, sim_num=40, random=250),
    # N=4 does not finish (TLC: > 2 h on 16 cores); the thorough tier replays EVERY N=3 shape and many more random DAGs of 5..10 nodes
    "thorough": dict(N=3, sample_shapes=None, qdepth=2, qsample=1500, sim_num=120, random=6000),
}
NP = 3


# ------------------------------------------------------------------------------ realising a model plan
class Unrealizable(Exception):
    pass


def realize(plan, N):
    """plan: {str(i): {bw, np, nd, ops}} from spec/Fusion.tla -> real collection for node 1"""
    import numpy as np
    import pandas as pd
    import dask_expr as dx
    built = {}

    def shape(i):
        nd = plan[str(i)]
        return (NP if nd["np"] != 1 else 1, nd["nd"])

    def leaf(i, sh):
        n = 12
        pdf = pd.DataFrame({"a": (np.arange(n) * (i + 1)) % 7 + 0.0, "b": (np.arange(n) + i) % 5 + 0.0}, index=pd.Index(np.arange(n), name="ix"))
        npart, nd = sh
        if nd == 2:
            return dx.from_pandas(pdf, npartitions=npart)
        if nd == 1:
            return dx.from_pandas(pdf.a.rename("a"), npartitions=npart)
        return dx.from_pandas(pdf.a, npartitions=NP).sum()

    for i in range(N, 0, -1):
        node = plan[str(i)]
        sh = shape(i)
        ops = list(node["ops"])
        if not ops:
            built[i] = leaf(i, sh)
            continue
        xs = [built[o] for o in ops]
        shs = [shape(o) for o in ops]
        x, xsh = xs[0], shs[0]
        if not node["bw"]:
            if len(ops) != 1:
                raise Unrealizable("two-operand non-partition-wise node")
            if xsh[1] == 0:
                raise Unrealizable("wide op over a scalar")
            if sh[1] == xsh[1]:
                if sh[0] == xsh[0]:
                    built[i] = x.cumsum()
                else:
                    built[i] = x.repartition(npartitions=sh[0])
            elif sh == (1, xsh[1] - 1):
                built[i] = x.sum()
            else:
                raise Unrealizable(f"wide {xsh}->{sh}")
            continue
        # partition-wise node
        if len(ops) == 1:
            if sh[0] != xsh[0]:
                raise Unrealizable("partition count change in a partition-wise op")
            if sh[1] == xsh[1]:
                built[i] = x + i
            elif (xsh[1], sh[1]) == (2, 1):
                built[i] = x["a"]
            elif (xsh[1], sh[1]) == (1, 2):
                built[i] = x.to_frame()
            else:
                raise Unrealizable(f"elementwise {xsh}->{sh}")
        else:
            y, ysh = xs[1], shs[1]
            if xsh == sh and ysh == sh:
                built[i] = x * 2 - y if ops[0] != ops[1] else x + x
            elif xsh == sh and ysh == (1, 0) and sh[1] > 0:
                built[i] = x + y
            elif ysh == sh and xsh == (1, 0) and sh[1] > 0:
                built[i] = y - x
            else:
                raise Unrealizable(f"binary {xsh},{ysh}->{sh}")
    return built[1], built


def _parts(e):
    import dask
    return list(dask.get(e.__dask_graph__(), e.__dask_keys__()))


def observe_fusion(coll, tid, desc, use_index=True):
    from .c11 import _Numbering
    num = _Numbering(use_index=use_index)
    tr = {"tid": tid, "desc": desc, "err_u": False, "err_f": False, "msg": "", "parts_u": [], "parts_f": [], "np_u": 0, "np_f": 0,
          "div_u": [], "div_f": [], "schema_u": {}, "schema_f": {}, "ordered": True, "groups": 0, "nested": 0}
    try:
        eu = coll.optimize(fuse=False).expr
        pu = _parts(eu)
        tr.update(np_u=int(eu.npartitions), div_u=[walk._enc_label(d) if d is not None else walk.NULL for d in eu.divisions],
                  schema_u=walk.schema_of(eu._meta), parts_u=[num.rows(p) if hasattr(p, "index") else [num.m.setdefault(repr(p), len(num.m))] for p in pu])
    except Exception as ex:
        tr.update(err_u=True, msg=f"unfused: {type(ex).__name__}: {ex}"[:200])
        return tr
    try:
        ef = coll.optimize(fuse=True).expr
        fused = [e for e in walk_deep(ef) if type(e).__name__ == "Fused"]
        tr["groups"] = len(fused)
        tr["nested"] = sum(1 for f in fused for m in f.exprs if type(m).__name__ == "Fused")
        pf = _parts(ef)
        tr.update(np_f=int(ef.npartitions), div_f=[walk._enc_label(d) if d is not None else walk.NULL for d in ef.divisions],
                  schema_f=walk.schema_of(ef._meta), parts_f=[num.rows(p) if hasattr(p, "index") else [num.m.setdefault(repr(p), len(num.m))] for p in pf])
    except Exception as ex:
        tr.update(err_f=True, msg=f"fused: {type(ex).__name__}: {ex}"[:200])
    return tr


def walk_deep(e):
    from .c11 import _deep
    return _deep(e)


def random_dag(seed, steps):
    """a seeded random expression DAG over one frame: partition-wise ops, broadcast scalars, reductions, a wide op
    (cumsum), shared nodes - and re-optimization of intermediate collections (the only way nested groups arise)"""
    import numpy as np
    import pandas as pd
    import dask_expr as dx
    rnd = random.Random(seed)
    n = 12
    pdf = pd.DataFrame({"x": np.arange(n) % 5 + 1.0, "y": (np.arange(n) * 3) % 7 + 0.0}, index=pd.Index(np.arange(n), name="ix"))
    df = dx.from_pandas(pdf, npartitions=NP)
    series, scalars, frames = [df.x, df.y], [], [df]
    log = []
    for k in range(steps):
        r = rnd.random()
        if r < 0.22:
            s_ = rnd.choice(series); c = rnd.randrange(1, 4); series.append(s_ + c); log.append(f"s+{c}")
        elif r < 0.36 and len(series) >= 2:
            a, b = rnd.sample(range(len(series)), 2); series.append(series[a] * 2 - series[b]); log.append("s*2-s")
        elif r < 0.48:
            scalars.append(rnd.choice(series).sum()); log.append("sum")
        elif r < 0.60 and scalars:
            c = rnd.randrange(1, 4); scalars.append(rnd.choice(scalars) + c); log.append(f"sc+{c}")
        elif r < 0.74 and scalars:
            series.append(rnd.choice(series) * rnd.choice(scalars)); log.append("s*sc")
        elif r < 0.82:
            series.append(rnd.choice(series).cumsum()); log.append("cumsum")
        elif r < 0.92:
            i = rnd.randrange(len(series)); series[i] = series[i].optimize(); series.append(series[i] - rnd.randrange(1, 4)); log.append("opt(s)-c")
        elif scalars:
            i = rnd.randrange(len(scalars)); scalars[i] = scalars[i].optimize(); log.append("opt(sc)")
        else:
            f_ = rnd.choice(frames); frames.append(f_ + 1); series.append(frames[-1].x); log.append("f+1.x")
    return series[-1], log


def template_dag(a, b, optpos, post, use_frame):
    """scalar chain of length a broadcast into a series/frame op after b partition-wise ops, re-optimized at optpos"""
    import numpy as np
    import pandas as pd
    import dask_expr as dx
    n = 12
    pdf = pd.DataFrame({"x": np.arange(n) % 5 + 1.0, "y": (np.arange(n) * 3) % 7 + 0.0}, index=pd.Index(np.arange(n), name="ix"))
    df = dx.from_pandas(pdf, npartitions=NP)
    s_ = df if use_frame else df.y
    for i in range(b):
        s_ = s_ + (i + 1)
    X = df.x.sum()
    for i in range(a):
        X = X + (i + 1)
    inner = s_ * X
    if optpos == 1:
        inner = inner.optimize()
    res = inner - 3
    if post == 2:
        res = res * 2
    if optpos == 2:
        res = res.optimize() + 1
    if optpos == 3:
        res = (res.optimize() + 1).optimize() - 1
    return res


def replay(case):
    import dask_expr as dx
    kind = case["kind"]
    if kind == "template":
        coll = template_dag(case["a"], case["b"], case["optpos"], case["post"], case["frame"])
        return {"lines": [observe_fusion(coll, case["tid"], "template:a=%d,b=%d,opt=%d,post=%d,frame=%s" % (case["a"], case["b"], case["optpos"], case["post"], case["frame"]))]}
    if kind == "random":
        try:
            coll, log = random_dag(case["seed"], case["steps"])
        except Exception as ex:
            return {"unrealizable": f"{type(ex).__name__}: {ex}"[:120]}
        t = observe_fusion(coll, case["tid"], "random:" + ",".join(log))
        return {"lines": [t]}
    out = []
    tid = case["tid"]
    if kind == "shape":
        try:
            coll, built = realize(case["plan"], case["N"])
        except Unrealizable as ex:
            return {"unrealizable": str(ex)}
        out.append(observe_fusion(coll, tid, "shape"))
        # nested groups: re-optimize on top of an already optimized operand
        root = case["plan"]["1"]
        if root["ops"]:
            try:
                plan2 = json.loads(json.dumps(case["plan"]))
                sub = built[root["ops"][0]].optimize()
                b2 = dict(built)
                b2[root["ops"][0]] = sub
                coll2 = _rebuild_root(plan2, b2)
                out.append(observe_fusion(coll2, tid + 1, "shape/root-over-optimized-operand"))
                out.append(observe_fusion((coll.optimize() + 1) if coll.ndim > 0 else coll.optimize() + 1, tid + 2, "shape/op-over-optimized-plan"))
            except Unrealizable:
                pass
        return {"lines": out}
    if kind == "query":
        tabs = rel.make_tables(case["dseed"])
        env = rel.dask_sources(tabs, {"T1": ("from_pandas", case["np1"]), "T2": ("from_pandas", case["np2"])})
        try:
            coll = rel.build(case["q"], env, "dask")
        except Exception as ex:
            return {"unrealizable": str(ex)[:100]}
        ops_ = rel.ops_of(case["q"])
        UNORD = ("shuffle", "merge", "dropdup", "unique", "valuecounts", "sort", "setindex", "combinefirst")
        # a merge on columns restarts the index labels per chunk; reset_index after an operator that leaves the row order inside
        # partitions unspecified (disk shuffle ...) numbers the rows in that unspecified order: the labels are not part of a row's identity
        ui = "merge" not in ops_ and not any(o == "resetindex" and any(u in ops_[:i] for u in UNORD) for i, o in enumerate(ops_))
        t = observe_fusion(coll, tid, "query", use_index=ui)
        t["ordered"] = not any(o in ("shuffle", "merge", "dropdup", "unique", "valuecounts", "sort", "setindex", "combinefirst") for o in rel.ops_of(case["q"]))
        out.append(t)
        if coll.ndim > 0:
            try:
                t2 = observe_fusion(coll.optimize() + 1, tid + 1, "query/op-over-optimized-plan", use_index=ui)
                t2["ordered"] = t["ordered"]
                out.append(t2)
            except Exception:
                pass
        return {"lines": out}
    raise ValueError(kind)


def _rebuild_root(plan, built):
    node = plan["1"]
    ops = list(node["ops"])
    xs = [built[o] for o in ops]
    sh = (NP if node["np"] != 1 else 1, node["nd"])
    if not node["bw"]:
        raise Unrealizable("root is not partition-wise")
    x = xs[0]
    if len(ops) == 1:
        if x.ndim == sh[1]:
            return x + 1
        if (x.ndim, sh[1]) == (2, 1):
            return x["a"]
        if (x.ndim, sh[1]) == (1, 2):
            return x.to_frame()
        raise Unrealizable("root")
    y = xs[1]
    if ops[0] == ops[1]:
        return x + x
    if y.ndim == 0:
        return x + y
    if x.ndim == 0:
        return y - x
    return x * 2 - y


def run(tier="quick", seed=0, replay_path=None):
    chk = common.Check("C14", tier, seed)
    t = TIERS[tier]
    rnd = random.Random(seed)
    if replay_path:
        with open(replay_path) as f:
            cases = [json.load(f)["case"]["case"]]
    else:
        cfg = tlc.cfg(spec="Spec", constants={"N": t["N"], "NP": 2}, invariants=["TypeOK", "Terminates", "SameLayout", "Report"])
        r = tlc.run("Fusion", cfg, extra='ASSUME EmitPlans("plans.ndjson")', outfiles=["plans.ndjson"], timeout=3400)
        chk.add_tlc(f"Fusion design model N={t['N']}", r)
        if r.violated:
            raise tlc.MachineryError("Fusion model invariant violated: " + str(r.violated))
        chk.extra["design_level_failures"] = len(r.tagged("DESIGN"))
        chk.extra["design_failure_samples"] = [x[1][:300] for x in r.tagged("DESIGN")[:3]]
        shapes = [x["plan"] for x in r.outfiles["plans.ndjson"]]
        chk.extra["plan_shapes_enumerated"] = len(shapes)
        rnd.shuffle(shapes)
        cases = [{"kind": "shape", "plan": {str(k): v for k, v in (p.items() if isinstance(p, dict) else enumerate(p, 1))}, "N": t["N"]} for p in shapes[: t["sample_shapes"]]]
        qs = rel.gen_queries("general", t["qdepth"], seed=seed, sample=t["qsample"], sim_num=t["sim_num"], sim_depth=4, chk=chk)
        for c in qs:
            cases.append({"kind": "query", "q": c["q"], "dseed": rnd.randrange(5), "np1": rnd.choice([2, 3]), "np2": rnd.choice([1, 2])})
        for a in range(4):
            for b in range(3):
                for optpos in range(4):
                    for post in (1, 2):
                        for fr in (False, True):
                            cases.append({"kind": "template", "a": a, "b": b, "optpos": optpos, "post": post, "frame": fr})
        for i in range(t["random"]):
            cases.append({"kind": "random", "seed": seed * 100000 + i, "steps": rnd.randrange(5, 11)})
    for i, c in enumerate(cases):
        c["tid"] = 4 * i
    common.assert_repo()
    raw = common.pmap(replay, cases)
    lines, unreal = [], 0
    bytid = {}
    for c, r in zip(cases, raw):
        if "__machinery__" in r:
            chk.machinery.append(r["__machinery__"])
            continue
        if "unrealizable" in r:
            unreal += 1
            continue
        for ln in r["lines"]:
            lines.append(ln)
            bytid[ln["tid"]] = c
    if len(chk.machinery) > 0.03 * len(cases):
        raise tlc.MachineryError(f"too many replay failures: {chk.machinery[:3]}")
    chk.evaluations = len(lines)
    chk.extra["unrealizable_shapes"] = unreal
    chk.extra["plans_with_fused_groups"] = sum(1 for ln in lines if ln["groups"])
    chk.extra["plans_with_nested_groups"] = sum(1 for ln in lines if ln["nested"])
    slim = [{k: v for k, v in ln.items() if k not in ("desc", "msg", "groups", "nested")} for ln in lines]
    cfg = tlc.cfg(init="Init", next="Next", postcondition="AllConsumed")
    results, rejects, _, _ = tlc.validate("FusionTrace", slim, cfg_text=cfg, chunk=300, parallel=10)
    for r in results:
        chk.add_tlc("FusionTrace", r)
    chk.traces = len(lines)
    for ln in lines:
        if ln["groups"]:
            chk.note_nontrivial(common.case_hash([bytid[ln["tid"]].get("plan", bytid[ln["tid"]].get("q")), ln["desc"]]))
        if ln["tid"] in rejects:
            c = bytid[ln["tid"]]
            chk.fail(rejects[ln["tid"]], {"case": {k: v for k, v in c.items() if k != "tid"}, "desc": ln["desc"], "ops": rel.ops_of(c["q"]) if "q" in c else [], "q": c.get("q", {"op": "none"})},
                     {"msg": ln["msg"], "parts_u": ln["parts_u"], "parts_f": ln["parts_f"], "groups": ln["groups"], "nested": ln["nested"]})
    chk.rule = (f"plan shapes = initial states of spec/Fusion.tla (N={t['N']}; every DAG of partition-wise / other nodes with (npartitions, ndim) shapes, <= 2 operands, shared nodes), "
                f"a seeded sample of {t['sample_shapes']} realised as real expressions where a realisation exists, each also with the root rebuilt over an already optimized operand and "
                "with an op on top of the optimized plan (nested groups); plus TLC-generated query programs. non-trivial = the fused plan contains at least one Fused group")
    for ln in lines[3:3000:1100]:
        chk.sample({k: ln[k] for k in ("desc", "np_u", "np_f", "groups", "nested", "parts_u")})
    chk.assumptions += ["rows are numbered by index label + values; disk/hash-shuffled plans compare partitions as bags"]
    return chk.finish()

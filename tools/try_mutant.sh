#!/bin/bash
# tools/try_mutant.sh <patch.diff> <check id>...  : apply a seeded change to /repo, run the checks, undo it.
P=$1; shift
cd /repo || exit 2
git diff --quiet || { echo "/repo has uncommitted changes"; exit 2; }
git apply "$P" || { echo "patch does not apply"; exit 2; }
for id in "$@"; do
  echo "=== $id with $(basename $(dirname $P))/$(basename $P)"
  (cd /verif && bin/check $id --tier ${TIER:-quick} 2>&1 | grep -E "VIOLATION|KNOWN-FINDING|MACHINERY|^C[0-9]+ \[" | cut -c1-300 | head -${LINES_MAX:-8})
done
git -C /repo checkout -- .

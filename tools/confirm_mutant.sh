#!/bin/bash
# tools/confirm_mutant.sh <PROP> <A|B> : confirm a seeded change delivered in /tmp/mut/out/<PROP>/<A|B>
#   (tests of the stable baseline still pass with it; demo passes without it and fails with it),
#   then keep it as /verif/seeded/<PROP>-<X>/ {patch.diff, demo.py, notes.md, meta.json}
PROP=$1; X=$2
SRC=/tmp/mut/out/$PROP/$X
WT=/tmp/mut/confirm_$PROP$X
[ -f $SRC/patch.diff ] && [ -f $SRC/demo.py ] || { echo "missing deliverable in $SRC"; exit 2; }
git -C /repo worktree add --detach $WT fb97c47 -q || exit 2
trap 'git -C /repo worktree remove --force $WT' EXIT
cd $WT
PYTHONPATH=$WT timeout 900 /venv/bin/python $SRC/demo.py >/tmp/mut/confirm_$PROP$X.clean.log 2>&1; rc_clean=$?
git apply $SRC/patch.diff || { echo "patch does not apply"; exit 2; }
PYTHONPATH=$WT timeout 900 /venv/bin/python $SRC/demo.py >/tmp/mut/confirm_$PROP$X.mut.log 2>&1; rc_mut=$?
/tmp/mut/run_tests.sh $WT > /tmp/mut/confirm_$PROP$X.tests.log 2>&1; rc_tests=$?
echo "$PROP-$X demo_clean_rc=$rc_clean demo_mutated_rc=$rc_mut tests_rc=$rc_tests"
if [ $rc_clean = 0 ] && [ $rc_mut != 0 ] && [ $rc_tests = 0 ]; then
  D=/verif/seeded/$PROP-$X; mkdir -p $D
  cp $SRC/patch.diff $SRC/demo.py $D/; cp $SRC/notes.md $D/ 2>/dev/null
  python3 - "$PROP" "$X" "$D" <<'PY'
import json,sys
prop,x,d=sys.argv[1:4]
notes=open(d+'/notes.md').read() if __import__('os').path.exists(d+'/notes.md') else ''
json.dump({"breaks_property":prop,"variant":x,"origin":"independent sub-agent given only the property text and a scratch worktree",
 "needs_to_manifest":"see notes.md (trigger section)","confirmed":{"baseline_tests_with_patch":"4316 stable tests still pass (tools/confirm_mutant.sh -> /tmp/mut/run_tests.sh, pytest -n 6)",
 "demo_without_patch":"exit 0","demo_with_patch":"exit non-zero"},"base_commit":"fb97c47","detected_by":[]},open(d+'/meta.json','w'),indent=1)
PY
  echo "kept $D"
else
  echo "NOT CONFIRMED: $PROP-$X (see /tmp/mut/confirm_$PROP$X.*.log)"
fi

#!/usr/bin/env python3
"""Regenerate /verif/MANIFEST.json from the table below (keeps the file valid and consistent)."""
import json, os, subprocess
ROOT = os.path.dirname(os.path.dirname(os.path.abspath(__file__)))
props = [json.loads(l) for l in open(os.path.join(ROOT, "properties.jsonl"))]

CHECKS = {
 "C13": dict(
    technique="TLA+ transcription of the repartition planners model-checked by TLC for all (old, new, force) divisions; real plans and per-partition outputs trace-validated by TLC against PlanSem postconditions",
    text="TLC checks the transcribed planners exhaustively over all small division pairs / partition counts (design level) and, for every one of those TLC-enumerated cases, validates the plan and the partitions produced by the real code against the specification's postconditions (rows preserved in order, new divisions honoured, rejection iff the range is not covered) evaluated on a universal dataset, so the verdict covers every frame with those divisions. Model checking is the right level: the planner is index arithmetic over small integers and its failures are alignment corner cases inside the enumerated scope.",
    note="Trusted: TLC, the contracts of dask.dataframe helper functions written in spec/PlanSem.tla (bound by the PlanBinding clause on every trace), the harness abstraction of layers (harness/vx/plans.py). Bounded scope: divisions over 4-5 values, <= 6-9 partitions; partition_size/freq variants are replayed only in the thorough tier.",
    design="5.2 C13"),
 "C12": dict(
    technique="TLA+ transcription of SimpleShuffle/TaskShuffle/DiskShuffle layers model-checked by TLC for all (method, n_in, n_out, max_branch, selection); real layers, inputs and outputs trace-validated by TLC (routing postcondition, key co-location across dtypes)",
    text="TLC runs the transcribed shuffle planners stage by stage for every (method, n_in, n_out, max_branch, selection of output partitions) within the bound and evaluates the routing postcondition on a universal dataset; for every one of those cases the layer the real shuffle node emits is abstracted and its meaning (spec/ShuffleOps.tla) must route every row exactly once to the partition its routing number names, must equal what the real graph computed, and the real execution must not fail. Co-location across frames with different key dtypes/placements is validated from the partition numbers real shuffles assigned. Model checking fits: routing is digit arithmetic over small integers and the failures are stage/subset alignment cases inside the enumerated scope.",
    note="Trusted: TLC; contracts of dask.dataframe.shuffle helpers as written in spec/ShuffleOps.tla (bound by PlanBinding on every trace); harness abstraction of layers (harness/vx/c12.py). p2p shuffle is not bound (no `distributed`). Bounded: n_in <= 6 (quick) / 9 (thorough), max_branch in 2..4.",
    design="5.2 C12"),
 "C11": dict(
    technique="TLA+ model of the partition-selection push-down rule model-checked by TLC (rule as coded vs positional-only); TLC-enumerated (operator chain, selection) cases replayed on 12 data sources; traces of partitions[...]/get_partition/to_delayed/head/tail validated by TLC against the expected selection of the unoptimized partitions",
    text="TLC explores every chain of operator kinds (positional, broadcast, shifted, wide, partition-filtered) x selection and checks that pushing the selection one operator down commutes; those abstract cases are made concrete on every kind of source and each selection's result is validated by TLC against the selection computed from the partitions of the same collection lowered without optimization (first-n-of-first-k / last-n-of-last for head/tail, no new error). Model checking suits the rule (small finite chain/selection space); the binding is trace validation of observed partitions.",
    note="Trusted: TLC, pandas equality of row representations (rows numbered by index label + values), the unoptimized lowering as reference. Row order inside partitions is not compared below disk shuffles / joins. Known finding F20 (selection above a fused multi-file read) is suppressed only for cases flagged fused_io_under_selection.",
    design="5.2 C11"),
 "C01": dict(
    technique="TLA+ state machine of the query program space (QueryGen) enumerated/simulated by TLC; each program replayed through the real API; results of every optimizer stage trace-validated by TLC against the unoptimized lowering under the spec's order/index-definedness rules",
    text="TLC enumerates well-typed DataFrame programs (all up to depth 1, a seeded sample of depth 2, simulated behaviours up to depth 4-5) from the QueryGen specification, which also derives where row order and index labels are defined. Every program is built through the public API on seeded tables with NULLs and duplicate keys under two partition layouts (known divisions / unknown divisions with an empty partition) and executed unoptimized, at optimizer stages and through compute(); TLC validates each observation against the unoptimized reference with the acceptance relation of spec/Rel.tla (no new error, same schema, same rows as sequence or bag, sortedness of top-level sorts).",
    note="Trusted: TLC; the unoptimized lowering as reference; pandas objects' values encoded to integers (non-integral results scaled by 1000). Bounded/sampled program space (operators of spec/QueryGen.tla only; depth <= 5); numeric columns only in this tier.",
    design="5.0 C01"),
 "C03": dict(
    technique="TLC-enumerated filter-focused programs (QueryGen) incl. the full join-kind x suffix x column table; TLC validates (1) every optimizer stage against the unoptimized query and (2) the rows each filter keeps against the spec's two-valued/three-valued predicate truth (Rel!Keep) on the unfiltered frame",
    text="The program space is the QueryGen state machine with focus filter: predicate trees with and/or/not, isin, isna, column-vs-column comparisons and the OR-factoring shapes, placed above and below projections, elementwise ops, renames, sorts, set_index, shuffles, repartitions and merges of every kind and suffix pair (the merge x filter table is covered exhaustively, deeper programs by seeded sampling and TLC simulation). For each program TLC validates all stage results against the unoptimized execution and, for every filter in it, that the optimized filter keeps exactly the rows of the unfiltered frame on which the predicate is true according to the specification's own truth definition.",
    note="Trusted: TLC; the unoptimized lowering; the predicate truth definition of spec/Rel.tla (numpy mode). The parquet reader side of the statement (filters handed to a file reader) is decided under C18.",
    design="5.0 C03"),
 "C04": dict(
    technique="TLC-enumerated projection-focused programs (QueryGen) incl. every selection directly above operators with their own projection rule; TLC validates stage results incl. column labels/order against the unoptimized query, and the widened-input metamorphic relation for programs the spec marks closed",
    text="Programs with focus project (single / ordered-pair / reordered selections through rename, add_prefix/add_suffix with affixes that share characters with labels, merge suffix pairs, combine_first, concat, groupby / sort / set_index / drop_duplicates with implicit key columns) are TLC-generated; selections directly above merge, prefix/suffix, rename, combine_first, concat, groupby, set_index, sort, drop_duplicates, nlargest and assign are covered exhaustively. TLC validates every stage against the unoptimized query (clauses Columns, NoNewError, Rows) and, where QueryGen derives that the result columns are fixed by the query (sc.closed), that computing on inputs widened with unused columns gives the same result.",
    note="Trusted: TLC; unoptimized lowering as reference; the closed/tainted rules of spec/QueryGen.tla decide where the widening relation applies.",
    design="5.0 C04"),
 "C02": dict(
    technique="TLC-enumerated programs (QueryGen focus partitioned) x TLC-enumerated partition layouts (every cut of the rows into <= 4 partitions incl. empty ones, known/unknown divisions); TLC validates every layout's result against pandas on the concatenated input under the spec's acceptance relation",
    text="Every depth-1 program over the partition-sensitive operator families (reductions, groupby aggregations, joins of all kinds, concat, sort / set_index, cumulative, shift / diff / ffill, drop_duplicates / unique / value_counts / nlargest, aligned column arithmetic) is executed under EVERY layout TLC enumerates for a small table (all non-decreasing cut sequences, so empty partitions at the front, middle and end are included), deeper programs under seeded layouts, with an independently partitioned second input. TLC accepts a result only if it has the reference's schema and rows (as a sequence where the specification defines the order, else as a bag; index labels where defined; sortedness for top-level sorts) or is an explicit refusal the specification names for window operations.",
    note="Trusted: TLC; pandas as the definition of the expected value (the property's own wording); float64 columns with NaN as NULL. groupby apply/transform, rolling, resample, merge_asof, loc are not yet in the program space.",
    design="5.1 C02"),
 "C10": dict(
    technique="TLC-enumerated programs (QueryGen focus knobs) x TLC-enumerated knob grids (QueryGen!KnobGrid) x partition shapes straddling the planner thresholds; TLC validates the result under every knob tuple / fuse setting against the default-knob execution",
    text="Programs containing reductions, groupby aggregations (incl. dropna=False), merges of every kind, sort / set_index, shuffles and drop_duplicates / unique / value_counts are executed on 18x17-row tables with (1..9) x (1..17) partitions under knob tuples drawn from the TLC-enumerated grids (split_every incl. False, split_out incl. True, shuffle_method tasks/disk, max_branch, merge broadcast None/True/False/bias and npartitions hints taken systematically, sort npartitions / upsample) with fuse on and off; TLC accepts each result only if it equals the default-knob result up to the row order / index labels the specification leaves undefined.",
    note="Trusted: TLC; the default-knob execution as reference (its own correctness is C01/C02's business). p2p shuffle cannot run here. Knob tuples per program are seeded samples of the grid (the merge broadcast x npartitions sub-grid is exhaustive).",
    design="5.1 C10"),
 "C06": dict(
    technique="TLA+ invariants Truthful / LengthsTruthful (spec/PlanWalkOps.tla) evaluated by TLC on traces of every collection node of the unoptimized-lowered, simplified-physical and fused plans of TLC-generated programs, plus session-history length queries",
    text="For TLC-generated programs (QueryGen) under known-division and unknown-division/empty-partition layouts (and concat inputs whose index ranges touch or are disjoint) every node of three plan stages is materialised by one execution of the plan's own graph; TLC checks for each node that the number of computed partitions equals the reported npartitions and, where divisions are reported as known, that they are sorted, have npartitions+1 entries and bound every partition's observed min/max index label (last partition closed). Metadata-only row counts (len, shape, size) of the logical root and of partition selections asked in sequence on one shared source are compared with counted rows.",
    note="Trusted: TLC; min/max/len of the computed pandas partitions. Per-partition intermediates of reductions (Chunk, GroupByChunk, TakeLast, tree nodes) are checked for their partition count only; string-labelled divisions are not ordered by the encoding and are skipped; parquet sources are covered under C18.",
    design="5.4 C06"),
 "C07": dict(
    technique="TLA+ relation SchemaMatches / StageStable (spec/PlanWalkOps.tla) evaluated by TLC on traces of every collection node's declared meta vs the schema of each computed partition and of the computed result, and of the root's declared schema at all six optimizer stages",
    text="The same plan walk logs, for every node, the declared container kind, ordered column labels, series/index names and dtype kinds next to those of every computed partition (including empty and all-null ones from the layouts) and of the concatenated result; TLC requires equality up to pandas' integer/boolean-to-float promotion, and that the root's declared schema is identical at the logical, simplified, tuned, physical, simplified-physical and fused stages.",
    note="Trusted: TLC; pandas' typing rules are not re-specified (consistency between declaration and data only); numeric float64 columns in this tier.",
    design="5.4 C07"),
 "C09": dict(
    technique="TLA+ model of Expr.__dask_graph__ (stack walk keyed by name, layer merge) model-checked by TLC for all small DAGs/namings; graph invariants (OutputsDefined, Closed, Acyclic, Unambiguous, NoPlanner) evaluated by TLC on the per-node layers of real plans before dask merges them",
    text="TLC checks on all DAGs of 4 nodes x namings that the assembly walk yields a closed, acyclic, unambiguous graph with one layer per node exactly when names are collision-free (and silently drops a node otherwise). For TLC-generated programs the harness re-walks each of three plan stages, calls every node's own _layer(), and logs key -> (layer, task token, referenced keys incl. key-shaped references that nothing defines, embedded expression/collection objects); TLC evaluates the five invariants on every such graph.",
    note="Trusted: TLC; dask.core.keys_in_tasks for dependency discovery plus a scan for key-shaped tuples of the plan's own names; task tokens from dask.base.tokenize. Graphs imported via persist/from_delayed/legacy are covered under C17.",
    design="5.3 C09"),
 "C14": dict(
    technique="TLA+ transcription of _fusion_pass / Fused._task model-checked by TLC over all small plan DAGs under every iteration order; enumerated shapes realised as real expression DAGs (plus nested re-optimization templates, seeded random DAGs and QueryGen programs); TLC validates fuse on vs off per output partition",
    text="TLC runs the fusion loop on every well-formed plan DAG of N nodes (partition-wise or not, (npartitions, ndim) shapes, up to two operands, shared nodes), exploring every order in which the code may walk its sets, and checks that each output partition of the fused plan is the same symbolic term as in the unfused plan, that the layout is unchanged and that the loop ends within N passes. The enumerated shapes are realised through the API where a realisation exists and executed with fusion on and off - also with the root rebuilt over an already optimized operand and with operations applied to optimized collections, which is how nested groups arise - together with a template family of scalar chains broadcast into partition-wise ops, seeded random DAGs and TLC-generated query programs; TLC compares npartitions, divisions, schema and every partition's rows.",
    note="Trusted: TLC; rows numbered by index label + values (labels ignored below merges, partitions as bags below hash/disk shuffles). MapPartitions' any-ndim broadcast rule and two-operand non-partition-wise nodes are not realised from shapes.",
    design="5.2 C14"),
 "C05": dict(
    technique="TLA+ scheduler model (Sched.tla): hazard analysis on small graphs by TLC, and TLC -simulate schedules of the dependency graph of every real task graph; the real tasks are executed in those orders (plus adversarial orders per shared key, repeated computes, thread pools) with content hashes of every argument before/after each call; SchedTrace.tla validates",
    text="TLC shows on small graphs that every task sees pristine inputs under all schedules exactly when no task modifies an argument, and produces complete schedules for the dependency structure of each real graph. The harness runs the real tasks one by one in the canonical order, in the TLC-generated orders and in orders that put each consumer of a shared key first / last, hashing all argument objects before and after every call, all outputs, and the user's source objects; it also recomputes collections and uses real thread pools. TLC validates per execution: dependencies finished first, each key written once, inb = ina for every task (no mutation), every key's output equals the canonical run's, sources intact, final result equal.",
    note="Trusted: TLC; sha1-of-pickle content hashes; partd files / barrier tokens of disk shuffles are treated as external state by design; outputs below a disk shuffle are hashed order-insensitively; thread-pool runs are a sample of interleavings (final result and sources only).",
    design="5.3 C05"),
 "C19": dict(
    technique="TLA+ model of the Expr.simplify convergence loop model-checked by TLC for every rule-set behaviour (termination as liveness, bounded passes, fixed point, raises only on a real cycle); hook-recorded pass sequences of real optimize() runs validated by TLC as converging behaviours within bounds; names across repetitions / hash seeds / processes; re-optimization",
    text="TLC checks the loop for all 4^4 x 4 (rule-set function, start expression) pairs: it always stops within K+1 passes, a converged result is a fixed point (optimizing again changes nothing) and non-convergence is reported only when the rules really cycle. For TLC-generated programs (general and filter focus, plus every conjunction filter over a merge and head/tail templates over no-op repartitions) the guarded hooks record every simplify pass and accepted rewrite of optimize(); TLC requires each simplify call to be a converging behaviour of the modelled loop (chained passes, last pass unchanged, no expression produced twice) within 25 passes and 40 rewrites per tree node, no RuntimeError/other exception, one plan name over three in-process rebuilds and two fresh interpreters with other PYTHONHASHSEED, and that the optimized and the twice-optimized collection compute what the query computes whenever its unoptimized lowering does.",
    note="Trusted: TLC; the hooks (if the hooked lines vanish, traces_without_hook_events reports it and only the observational clauses decide); bounds are generous constants, measured maxima are in the evidence. Equality of the re-optimized plan NAME is reported, not required (the statement requires an unchanged result).",
    design="5.0 C19"),
 "C08": dict(
    technique="TLA+ model of naming (prefix + token, one object per name) model-checked by TLC on the class->prefix map observed on the real code (collision candidates); NamesTrace validated by TLC on names / fingerprints / task keys of a corpus built in several orders, histories, interpreters and hash seeds",
    text="TLC shows that with the observed prefix map building an expression can return an object of another class exactly for the candidate pairs it enumerates. The corpus (TLC-generated programs of four QueryGen foci, single-parameter variations, equal-looking inputs with other data, repartitions of one frame to several targets, a parquet dataset rewritten in place, API-level rename vs column setter, a from_map callable object) is built forward, reversed, shuffled after 200 unrelated queries, and in fresh interpreters with other PYTHONHASHSEED; TLC requires one name per query node and one (key -> task token) set per optimized graph across all builds, one fingerprint per name and one task per key within a build (fingerprints are computed without dask's tokenize), and that API calls return the class they build.",
    note="Trusted: TLC; the harness fingerprint (class qualname + canonical operand dump, pandas data by hash_pandas_object). DiskShuffle's per-graph uuid keys are excluded by design (F15). Constructor-level aliases between classes that cannot receive equal operands through the API are reported in the evidence, not judged.",
    design="5.5 C08"),
 "C17": dict(
    technique="TLA+ model of cut-and-continue (Cut.tla) model-checked by TLC for all operator chains x cut points x cut kinds; TLC-generated programs cut for real at every intermediate collection with persist / delayed (with meta+divisions, bare, with prefix) / legacy round trips; CutTrace validated by TLC",
    text="TLC checks for every chain of partition-wise / other / partition-selecting operators, cut point and cut kind that continuing on the import node yields the same partition contents, keeps divisions unless the cut kind documents their loss, and that an import node absorbing different selections has different names only if its name covers the selection. Every proper sub-collection of TLC-generated programs is cut with six kinds of round trip and the rest of the program runs on the re-imported collection; TLC validates the final result (order / labels where defined), declared schema, divisions (those the uncut query declares or those its optimized plan runs with) and the graph invariants of the cut plan against the uncut query, and partition selections on the imported node against the head's own partitions.",
    note="Trusted: TLC; persist on the synchronous scheduler; installed dask's legacy dataframe. Scalars are not cut (no to_delayed).",
    design="5.6 C17"),
 "C16": dict(
    technique="TLA+ model of process-wide planner state (Session.tla: bounded LRU caches, a fresh process starts empty) model-checked by TLC; TLC-generated programs pickled as built / optimized / lowered (+ persisted-and-used) and loaded in fresh interpreters with another PYTHONHASHSEED; SessionTrace validated by TLC",
    text="TLC checks on Session.tla that a plan whose value lives only in a bounded process-wide cache is NOT transparent (Faithful=TRUE must violate Transparent: the model reproduces the documented defect), while recompute-on-miss with a complete key is. TLC-generated relational programs (every program ending in or one operator above set_index / sort_values included) are pickled in three forms, loaded in fresh interpreters (optimized forms first, nothing warms a cache) and name, declared schema, npartitions, divisions, result (order / labels where defined) and partition lengths are validated by TLC against the originating process.",
    note="Trusted: TLC; cloudpickle; subprocess interpreters of /venv. Partition lengths compared only where the program defines the row order.",
    design="5.7 C16"),
 "C15": dict(
    technique="TLA+ model of one Python process of the planner (Hist.tla: bounded LRU caches, table of live expressions with memoised values, dataset versions, failing tasks) model-checked by TLC incl. three negative controls; TLC -simulate behaviours replayed as session histories against the real code, every observation compared by TLC (SessionTrace) with the same query in a fresh process; recorded LRU events validated against the model's LRU (LruTrace)",
    text="TLC checks Transparent on Hist.tla for the mechanisms as implemented (complete cache keys, names that cover the dataset contents, failures store nothing) and finds a counterexample when any one is switched off. Behaviours of the same module (Build / Plan / Observe / Discard+gc / Churn / FailPlan / RewriteDask / RewriteOutside over 16 queries, LRU capacity 10) are replayed, each in its own process, over pools of concrete twin queries that differ in exactly one cache-key field (sort direction, npartitions, upsample, frame, partition selection, partition size, parquet columns / filters / statistics use); every observation of a handle (and of a held optimized plan) - name, plan, schema, npartitions, divisions, result, sort-key order, partition lengths - is validated by TLC against the same query built alone in a process forked from a pristine zygote. The lru_get / lru_set events of every cache object are validated against the LRU discipline of the model.",
    note="Trusted: TLC; fork(); the hooks of dask_expr/_verif.py (cache / lru / instance events). A handle on the dataset built before a rewrite is not observed (the property speaks of re-reading).",
    design="5.8 C15"),
 "C18": dict(
    technique="TLA+ model of the parquet case space and of the planner's reader rules (Parquet.tla: push-down soundness under two- vs three-valued null semantics, divisions from file statistics, fused-read divisions) model-checked by TLC incl. the unsound rules of the pinned commit as negative controls; every TLC-emitted case realized with real files and both reader implementations; ParquetTrace validated by TLC with the expected result computed by TLC from the written table",
    text="TLC evaluates in every state of Parquet.tla (a dataset layout x reader configuration x query) the rules the planner applies: a predicate moved into the reader keeps exactly the rows the in-memory filter keeps for every row over {NULL,0..3}^2; divisions derived from per-file min/max statistics cover what the files hold in hand-out order; fusing files keeps the outer divisions. The rules of the pinned commit (three-valued != pushed, sorted-pairs divisions, last fused division = partition id) are refuted by TLC; the repaired ones hold. The emitted cases - every predicate tree up to two connectives incl. non-pushable kinds, every sequence of 1..3 file ranges incl. unsorted / touching / overlapping, 1-2 row groups, both readers, calculate_divisions, split_row_groups, user filters, projections, partition selections, len / column terminals, pandas and dask writers, named / unnamed index - are written, read back and queried; TLC validates the round trip, every optimized execution against the unoptimized one AND against the expectation it computes itself from the written table (Rel!Keep), the plan's divisions against the labels each partition holds, divisions that must come back, and the overwrite guard.",
    note="Trusted: TLC; pandas / pyarrow as file writers; tmp files. The arrow reader's row order without divisions is the directory order: compared as bags.",
    design="5.9 C18"),
}

def main():
    sha = []
    try:
        out = subprocess.run(["git", "-C", "/repo", "log", "--format=%H %s"], capture_output=True, text=True).stdout
        sha = [l.split()[0] for l in out.splitlines() if " verif-hook:" in l or l.split(" ", 1)[1].startswith("verif-hook")]
    except Exception:
        pass
    m = {
     "version": 1,
     "setup_cmd": "bin/setup",
     "hooks": {
      "guard": "DASK_EXPR_VERIF",
      "enable": "env DASK_EXPR_VERIF=1 (pure Python, editable install of /repo: no build step; bin/check sets it)",
      "baseline_off_cmd": "cd /repo && env -u DASK_EXPR_VERIF /venv/bin/python -m pytest -ra -q -p no:cacheprovider --timeout=900 --continue-on-collection-errors",
      "source_commits": sha,
      "add_only": True,
     },
     "engines": [
      {"name": "tlc", "path": "/usr/local/bin/tlc", "serves_properties": sorted(CHECKS), "kind_free_text": "TLC 1.8 explicit-state model checker: design-level model checking of spec/*.tla and validation of implementation traces (spec/*Trace.tla)"},
      {"name": "harness", "path": "/verif/harness/vx", "serves_properties": sorted(CHECKS), "kind_free_text": "Python drivers: replay TLC-generated cases through the real dask-expr API, abstract plans/results to the trace format"},
     ],
     "checks": [],
     "notes": "All verdicts are computed by TLC from the TLA+ specifications in /verif/spec; Python only drives the implementation and abstracts what it did. Exit 2 = machinery failure.",
     "not_applicable": [],
    }
    for p in props:
        pid = p["id"]
        if pid in CHECKS:
            c = CHECKS[pid]
            m["checks"].append({
              "property_id": pid,
              "quick_cmd": f"bin/check {pid} --tier quick",
              "thorough_cmd": f"bin/check {pid} --tier thorough",
              "evidence_file": f"/verif/evidence/{pid}.json",
              "replay_cmd_template": f"bin/check {pid} --replay {{path}}",
              "engine": "tlc",
              "level_claimed": {"category": "model_checking", "text": c["text"], "design_ref": c["design"]},
              "level_note": c["note"],
              "technique": c["technique"],
            })
        else:
            m["not_applicable"].append({"property_id": pid, "reason": "check not built yet (build in progress; see DESIGN.md section 11) - the property is applicable to the technique"})
    json.dump(m, open(os.path.join(ROOT, "MANIFEST.json"), "w"), indent=1)
    print("checks:", [c["property_id"] for c in m["checks"]])

if __name__ == "__main__":
    main()

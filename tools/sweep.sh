#!/bin/bash
# tools/sweep.sh "<ids>" "<seeds>" : run quick checks for several seeds, keep the replay files per seed, print clusters
OUT=${SWEEP_OUT:-/tmp/sweep}
mkdir -p $OUT
for id in $1; do for s in $2; do
  VERIF_SEED=$s bin/check $id --tier ${TIER:-quick} > $OUT/$id.$s.log 2>&1
  mkdir -p $OUT/replays/$id.$s; cp replays/$id/*.json $OUT/replays/$id.$s/ 2>/dev/null
  echo "$id seed=$s: $(tail -1 $OUT/$id.$s.log)"
done; done

#!/bin/bash
# tools/matrix.sh [ID-X ...] : run every seeded change (or the named ones) against the check of its property (plus the extra
# checks listed below), one after the other on /repo (applied, checked, undone), and write seeded/matrix.json.
cd /verif || exit 2
declare -A EXTRA=( [C01-A]="C03" [C01-B]="C15" [C06-B]="C15" )
OUT=${MATRIX_OUT:-/tmp/matrix}; mkdir -p $OUT
LIST="$@"; [ -z "$LIST" ] && LIST=$(ls -d seeded/C*-[AB] | xargs -n1 basename)
git -C /repo diff --quiet || { echo "/repo has uncommitted changes"; exit 2; }
for m in $LIST; do
  P=seeded/$m/patch.diff; [ -f seeded/$m.on_fixed_tree.diff ] && P=seeded/$m.on_fixed_tree.diff
  if ! git -C /repo apply --check /verif/$P 2>/dev/null; then echo "$m does-not-apply $P" | tee $OUT/$m.status; continue; fi
  prop=${m%-*}
  for id in $prop ${EXTRA[$m]}; do
    git -C /repo apply /verif/$P
    bin/check $id --tier ${TIER:-quick} > $OUT/$m.$id.log 2>&1; rc=$?
    git -C /repo checkout -- .
    v=$(grep -c '^VIOLATION' $OUT/$m.$id.log)
    echo "$m $id rc=$rc violations=$v $(basename $P)" | tee -a $OUT/summary.txt
  done
done
/venv/bin/python - "$OUT" <<'PY'
import sys, json, re, os, collections
out = sys.argv[1]
res = collections.OrderedDict()
for ln in open(os.path.join(out, "summary.txt")):
    m, cid, rc, v, patch = ln.split()
    res.setdefault(m, {"patch": patch, "runs": {}})["runs"][cid] = {"exit": int(rc.split("=")[1]), "violation_lines": int(v.split("=")[1])}
for m, r in res.items():
    r["detected_by"] = sorted(c for c, x in r["runs"].items() if x["exit"] == 1 and x["violation_lines"] > 0)
    meta = f"/verif/seeded/{m}/meta.json"
    if os.path.exists(meta):
        d = json.load(open(meta)); d["detected_by"] = r["detected_by"]; d["checked_with"] = "tools/matrix.sh (quick tier, seed 0): " + ", ".join(f"{c}: exit {x['exit']}, {x['violation_lines']} VIOLATION lines" for c, x in r["runs"].items())
        json.dump(d, open(meta, "w"), indent=1)
prev = json.load(open("/verif/seeded/matrix.json")) if os.path.exists("/verif/seeded/matrix.json") else {}
prev.update(res)
json.dump(collections.OrderedDict(sorted(prev.items())), open("/verif/seeded/matrix.json", "w"), indent=1)
print("caught:", sum(1 for r in res.values() if r["detected_by"]), "of", len(res))
PY

---------------------------- MODULE SessionTrace ----------------------------
(***************************************************************************)
(* C15 / C16 conformance: one line per observation.                        *)
(*   here:   what the collection reported / computed where it was observed *)
(*           (inside a long session after a TLC-generated history - C15;   *)
(*           after unpickling in a fresh interpreter - C16)                *)
(*   alone:  the same query built and observed alone in a fresh process    *)
(*           (C15) / in the originating process (C16)                      *)
(* Transparent / SelfContained: name, schema, npartitions, divisions and   *)
(* result agree (result under the order / label rules of spec/Rel.tla).    *)
(***************************************************************************)
EXTENDS Rel, Json, IOUtils

T == ndJsonDeserialize(IOEnv.TRACE_FILE)

Verdict(t) ==
    IF t.alone.err # "" \/ ~t.alone.result.ok THEN "ok"            \* the reference itself cannot be observed: outside the property
    ELSE IF t.here.err # "" THEN "NoNewError"
    ELSE IF t.check_name /\ t.here.name # t.alone.name THEN "SameName"
    ELSE IF t.check_plan /\ t.here.plan # t.alone.plan THEN "SamePlan"
    ELSE IF t.here.schema # t.alone.schema THEN "SameSchema"
    ELSE IF t.here.np # t.alone.np THEN "SameNPartitions"
    ELSE IF t.here.div_known # t.alone.div_known \/ t.here.div # t.alone.div THEN "SameDivisions"
    ELSE LET v == Accept(t.alone.result, t.here.result, t.ord, t.idx) IN
         IF v # "ok" THEN v
         ELSE IF t.spine_here # t.spine_alone THEN "SameKeyOrder"      \* sorted output: the sequence of sort keys (ties are free)
         ELSE IF t.check_lens /\ t.here.lens # t.alone.lens THEN "SamePartitionLengths"
         ELSE "ok"

VARIABLES n, bad
Init == n = 1 /\ bad = 0
Next == /\ n <= Len(T)
        /\ LET v == Verdict(T[n]) IN
             /\ (v # "ok") => PrintT("REJECT|" \o ToString(T[n].tid) \o "|" \o v)
             /\ bad' = bad + (IF v = "ok" THEN 0 ELSE 1)
        /\ n' = n + 1
AllConsumed == TLCGet("stats").diameter = Len(T) + 1
=============================================================================

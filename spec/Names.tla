-------------------------------- MODULE Names --------------------------------
(***************************************************************************)
(* C08 - expression names are deterministic and collision-free.            *)
(*                                                                         *)
(* Design level.  An expression is (class, operands); its name is          *)
(*     Prefix[class] \o "-" \o Token(operands)                             *)
(* where Prefix is NOT the class name in general (every Blockwise uses     *)
(* funcname(operation), so several classes share one prefix) and Token is  *)
(* assumed injective and deterministic on operand VALUES (that assumption  *)
(* is what NamesTrace checks on the real code).  A process keeps one       *)
(* object per name (Expr._instances): building an expression whose name is *)
(* already taken returns the EXISTING object.                              *)
(* CONSTANT Prefix is the class -> prefix map OBSERVED on the real code by *)
(* the harness; TLC enumerates all pairs of expressions over it and        *)
(* reports the collision candidates, which the harness then tries to       *)
(* realise.                                                                *)
(***************************************************************************)
EXTENDS Naturals, Sequences, FiniteSets, TLC, Json

CONSTANTS Classes,       \* set of class names
          Prefix,        \* [Classes -> STRING]
          Arity          \* [Classes -> Nat]   number of operands
Vals == {1, 2}           \* abstract operand values

Exprs == UNION {{[cls |-> c, ops |-> o] : o \in [1..Arity[c] -> Vals]} : c \in Classes}
Name(e) == <<Prefix[e.cls], e.ops>>
Meaning(e) == <<e.cls, e.ops>>

VARIABLES inst, last        \* inst: name -> expression object kept by the process; last: what the latest Build returned
vars == <<inst, last>>
NoExpr == [cls |-> "none", ops |-> <<>>]
Init == inst = <<>> /\ last = [asked |-> NoExpr, got |-> NoExpr]
Build(e) == /\ IF Name(e) \in DOMAIN inst
               THEN /\ last' = [asked |-> e, got |-> inst[Name(e)]] /\ UNCHANGED inst
               ELSE /\ inst' = inst @@ (Name(e) :> e) /\ last' = [asked |-> e, got |-> e]
Drop(n) == /\ n \in DOMAIN inst /\ inst' = [k \in DOMAIN inst \ {n} |-> inst[k]] /\ UNCHANGED last     \* garbage collection (weak table)
Next == (\E e \in Exprs : Build(e)) \/ (\E n \in DOMAIN inst : Drop(n))
Spec == Init /\ [][Next]_vars

(* what the user gets back always means what was asked for *)
NoAliasing == Meaning(last.got) = Meaning(last.asked)
Injective == \A e1, e2 \in Exprs : Name(e1) = Name(e2) => Meaning(e1) = Meaning(e2)
Candidates == {<<c1, c2>> \in Classes \X Classes : c1 # c2 /\ Prefix[c1] = Prefix[c2] /\ Arity[c1] = Arity[c2]}
EmitCandidates(file) == JsonSerialize(file, [cands |-> {[a |-> p[1], b |-> p[2]] : p \in Candidates}])
=============================================================================

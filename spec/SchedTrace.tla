------------------------------ MODULE SchedTrace ------------------------------
(***************************************************************************)
(* C05 conformance: one line per execution of a real task graph.           *)
(*  events: sequence of [k, deps, inb, ina, out]: key id, ids of the keys  *)
(*          it read, content hashes (numbered) of every argument object    *)
(*          before and after the call, hash of the result                  *)
(*  ref:    out hash per key id of the canonical (first) execution         *)
(*  srcb / srca: hashes of the user's source objects before / after        *)
(* Clauses: Safety (every dependency finished earlier), WriteOnce,         *)
(* NoMutation (inb = ina for every task), SameOutputs (out = ref[k]),      *)
(* SourcesIntact.                                                          *)
(***************************************************************************)
EXTENDS Naturals, Integers, Sequences, FiniteSets, TLC, SequencesExt, Json, IOUtils

T == ndJsonDeserialize(IOEnv.TRACE_FILE)
SeqRange(s) == {s[i] : i \in DOMAIN s}

Safety(ev) == \A i \in DOMAIN ev : \A d \in SeqRange(ev[i].deps) : \E j \in 1..(i - 1) : ev[j].k = d
WriteOnce(ev) == \A i, j \in DOMAIN ev : ev[i].k = ev[j].k => i = j
NoMutation(ev) == \A i \in DOMAIN ev : ev[i].inb = ev[i].ina
SameOutputs(ev, ref) == \A i \in DOMAIN ev : \A r \in DOMAIN ref : ref[r][1] = ev[i].k => ref[r][2] = ev[i].out

Verdict(t) ==
    IF t.crashed THEN (IF t.ref_crashed THEN "ok" ELSE "NoNewError")
    ELSE IF ~Safety(t.events) THEN "Safety"
    ELSE IF ~WriteOnce(t.events) THEN "WriteOnce"
    ELSE IF ~NoMutation(t.events) THEN "NoMutation"
    ELSE IF t.srcb # t.srca THEN "SourcesIntact"
    ELSE IF ~SameOutputs(t.events, t.ref) THEN "SameOutputs"
    ELSE IF t.result # t.ref_result THEN "SameResult"
    ELSE "ok"

VARIABLES n, bad
Init == n = 1 /\ bad = 0
Next == /\ n <= Len(T)
        /\ LET v == Verdict(T[n]) IN
             /\ (v # "ok") => PrintT("REJECT|" \o ToString(T[n].tid) \o "|" \o v)
             /\ bad' = bad + (IF v = "ok" THEN 0 ELSE 1)
        /\ n' = n + 1
AllConsumed == TLCGet("stats").diameter = Len(T) + 1
=============================================================================

------------------------------- MODULE TreeOps -------------------------------
(***************************************************************************)
(* The tree reduction planner (dask_expr/_reductions.py: TreeReduce._layer)*)
(* transcribed, and what every reduction relies on (C02 / C10: the         *)
(* split_every knob changes the shape of the tree only).                   *)
(*                                                                         *)
(*   keys = the n chunk outputs; j = 1                                     *)
(*   while split_every is not False and len(keys) > split_every:           *)
(*       new = [combine(batch) for batch in partition_all(split_every)]    *)
(*       keys = new; j += 1                                                *)
(*   root = aggregate(keys)                                                *)
(*                                                                         *)
(* A node is <<j, i>> (level, position); level 0 holds the inputs; the     *)
(* root is <<-1, 0>>.  Layer(n, s) maps every combine node and the root to *)
(* the sequence of its operands.  S = 0 stands for split_every=False.      *)
(* TLC checks for every n in 1..MaxN and s in Splits:                      *)
(*   ExactlyOnce   every input reaches the root along exactly one path     *)
(*   InOrder       the leaves below the root, left to right, are 0..n-1    *)
(*                 (order-sensitive reductions: first / last / cumulative  *)
(*                 carries / concatenating aggregates)                     *)
(*   FanIn         no node has more than s operands (root: n if s = 0)     *)
(*   Depth         the number of combine levels is the least d with        *)
(*                 s^(d+1) >= n                                            *)
(***************************************************************************)
EXTENDS Naturals, Integers, Sequences, FiniteSets, TLC, SequencesExt, Json

CONSTANTS MaxN

Root == <<-1, 0>>
Ceil(a, b) == (a + b - 1) \div b
(* level j has Width(n, s, j) nodes *)
RECURSIVE Width(_, _, _)
Width(n, s, j) == IF j = 0 THEN n ELSE Ceil(Width(n, s, j - 1), s)
RECURSIVE Levels(_, _, _)
Levels(n, s, j) == IF s = 0 \/ Width(n, s, j) <= s THEN j ELSE Levels(n, s, j + 1)       \* number of combine levels
Batch(w, s, i) == [k \in 1..(IF (i + 1) * s <= w THEN s ELSE w - i * s) |-> i * s + k - 1]   \* positions of level j-1 below node i
Operands(n, s, node) ==
    IF node = Root THEN LET top == Levels(n, s, 0) IN [k \in 1..Width(n, s, top) |-> <<top, k - 1>>]
    ELSE LET j == node[1] i == node[2] b == Batch(Width(n, s, j - 1), s, i) IN [k \in DOMAIN b |-> <<j - 1, b[k]>>]
Nodes(n, s) == {Root} \cup {<<j, i>> \in (1..MaxN) \X (0..(MaxN - 1)) : j <= Levels(n, s, 0) /\ i < Width(n, s, j)}
Layer(n, s) == [node \in Nodes(n, s) |-> Operands(n, s, node)]

(* the inputs below a node, left to right *)
RECURSIVE Leaves(_, _, _)
Leaves(n, s, node) == IF node # Root /\ node[1] = 0 THEN <<node[2]>>
                      ELSE FlattenSeq([k \in DOMAIN Operands(n, s, node) |-> Leaves(n, s, Operands(n, s, node)[k])])
RECURSIVE Pow(_, _)
Pow(b, e) == IF e = 0 THEN 1 ELSE b * Pow(b, e - 1)

=============================================================================

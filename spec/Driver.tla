------------------------------- MODULE Driver -------------------------------
(***************************************************************************)
(* C19 - optimization terminates, is deterministic and idempotent.         *)
(*                                                                         *)
(* Expr.simplify (dask_expr/_core.py) as a state machine: one step = one   *)
(* pass (simplify_once over the whole tree).  A pass is a function on      *)
(* expressions; the model is checked for EVERY function `step` on a        *)
(* domain of K abstract expressions, i.e. for every possible behaviour of  *)
(* the rule set, well behaved or not.                                      *)
(*   loop:  new = step[expr]                                               *)
(*          if new = expr: converged                                       *)
(*          if new in seen: raise "Optimizer does not converge"            *)
(*          seen |= {new}; expr = new                                      *)
(***************************************************************************)
EXTENDS Naturals, Sequences, FiniteSets, TLC

CONSTANT K
E == 1..K
VARIABLES step, expr, seen, status, passes
vars == <<step, expr, seen, status, passes>>

Init == /\ step \in [E -> E] /\ expr \in E /\ seen = {} /\ status = "running" /\ passes = 0
Pass == /\ status = "running"
        /\ LET new == step[expr] IN
           /\ passes' = passes + 1
           /\ IF new = expr THEN /\ status' = "converged" /\ UNCHANGED <<expr, seen>>
              ELSE IF new \in seen THEN /\ status' = "raised" /\ UNCHANGED <<expr, seen>>
              ELSE /\ seen' = seen \cup {new} /\ expr' = new /\ status' = "running"
        /\ UNCHANGED step
Next == Pass
Spec == Init /\ [][Next]_vars /\ WF_vars(Next)

(* the loop always ends, within K + 1 passes: it never spins *)
Terminates == <>(status # "running")
Bounded == passes <= K + 1
(* what it returns is a fixed point of the rule set: optimizing again changes nothing (idempotence) *)
FixedPoint == status = "converged" => step[expr] = expr
(* it reports non-convergence only when the rules really cycle: the orbit re-enters an expression already produced *)
RECURSIVE Orbit(_, _, _)
Orbit(f, e, n) == IF n = 0 THEN {e} ELSE {e} \cup Orbit(f, f[e], n - 1)
RaisesOnlyOnCycle == status = "raised" => \E x \in seen : step[x] # x /\ x \in Orbit(step, step[x], K)
(* deterministic: the next state is a function of the current one (no choice in Pass) - checked as an action property *)
Deterministic == [][\A e2 \in E : (expr' = e2) => (e2 = expr \/ e2 = step[expr])]_vars
=============================================================================

-------------------------------- MODULE Hist --------------------------------
(***************************************************************************)
(* C15 - planner caches are transparent: session histories.                *)
(*                                                                         *)
(* One Python process of dask-expr as a state machine.  Everything a       *)
(* result could depend on besides the query itself:                        *)
(*   cache   a bounded process-wide LRU (divisions_lru, mem_usages_lru,    *)
(*           _BackendData._division_info, parquet _cached_plan): sequence  *)
(*           of <<key, value>>, least recently used first, capacity Cap    *)
(*   inst    Expr._instances: the live expression objects by NAME, each    *)
(*           with the values memoised on it (functools.cached_property on  *)
(*           a singleton): name -> value or None                           *)
(*   disk    version of the dataset the queries in PQ read                 *)
(*   gate    a task of the queries in Gated fails while gate = TRUE        *)
(* The user holds handles: handle[q] = name of the expression obtained by  *)
(* the last Build(q) (0: none).  A name is <<q, v>>: the query and - iff   *)
(* NameCoversData - the dataset version its reader saw (the parquet        *)
(* checksum is part of ReadParquet._name).                                 *)
(*                                                                         *)
(* Actions = what a session can do: Build, Plan (optimize: fills caches),  *)
(* Churn (other queries come and go),                                      *)
(* Observe (divisions / result / len), Discard (del + gc), Rewrite the     *)
(* dataset (through to_parquet, which clears the plan cache, or behind     *)
(* dask's back), GateOn / GateOff around a failing Plan.                    *)
(*                                                                         *)
(* Switches (all TRUE = the mechanisms C15 anchors):                       *)
(*   KeyComplete      the cache key covers everything the value depends on *)
(*   NameCoversData   the expression name covers the dataset contents      *)
(*   CleanFailure     a failing computation stores nothing                 *)
(* TLC checks Transparent for the mechanisms as implemented and shows a    *)
(* counterexample for each switch turned off (negative controls); the      *)
(* behaviours of this module are the histories the driver replays.         *)
(***************************************************************************)
EXTENDS Naturals, Integers, Sequences, FiniteSets, TLC, SequencesExt, Json

CONSTANTS Queries,        \* 1..N
          PQ,             \* queries that read the rewritable dataset
          Gated,          \* queries with a task that can be made to fail
          Twin,           \* Twin[q]: a query differing from q in ONE field of the cache key (0: none)
          Fillers,        \* other queries of the session (ids above Queries): planned and dropped, never observed
          Cap,            \* capacity of the LRU
          MaxVer,         \* dataset versions 1..MaxVer
          MaxSteps,       \* bound on the history length (for emission / exhaustive runs)
          KeyComplete, NameCoversData, CleanFailure

None == -1
Poison == -2             \* what a failed computation would leave behind if it left anything

(* the value a plan needs (divisions, lengths, statistics): a function of the query and, for PQ, of the data *)
Truth(q, v) == IF q \in PQ THEN 10 * q + v ELSE 10 * q
(* twins collide when the key misses the field they differ in *)
Rep(q) == IF ~KeyComplete /\ Twin[q] # 0 /\ Twin[q] < q THEN Twin[q] ELSE q
KeyOf(q, v) == <<Rep(q), IF q \in PQ /\ KeyComplete THEN v ELSE 0>>
NameOf(q, v) == <<q, IF q \in PQ /\ NameCoversData THEN v ELSE 0>>

VARIABLES cache, inst, handle, hver, disk, gate, obs, hist
vars == <<cache, inst, handle, hver, disk, gate, obs, hist>>

Keys(l) == {l[i][1] : i \in DOMAIN l}
Lookup(l, k) == (CHOOSE i \in DOMAIN l : l[i][1] = k)
Put(l, k, v) == Append(IF Len(l) >= Cap THEN Tail(l) ELSE l, <<k, v>>)
Touch(l, k) == LET i == Lookup(l, k) IN SubSeq(l, 1, i - 1) \o SubSeq(l, i + 1, Len(l)) \o <<l[i]>>
Step(a, q) == hist' = Append(hist, [a |-> a, q |-> q])

Init == /\ cache = <<>> /\ inst = <<>> /\ handle = [q \in Queries |-> <<>>] /\ hver = [q \in Queries |-> 0]
        /\ disk = 1 /\ gate = FALSE /\ obs = [q |-> 0, val |-> 0, ver |-> 0] /\ hist = <<>>

Names(s) == {s[i][1] : i \in DOMAIN s}
MemoOf(s, nm) == s[CHOOSE i \in DOMAIN s : s[i][1] = nm][2]
SetMemo(s, nm, v) == [i \in DOMAIN s |-> IF s[i][1] = nm THEN <<nm, v>> ELSE s[i]]

(* Expr.__new__: an expression of this name that is still alive is returned as is, with what it memoised *)
Build(q) == /\ LET nm == NameOf(q, disk) IN
                 /\ inst' = IF nm \in Names(inst) THEN inst ELSE Append(inst, <<nm, None>>)
                 /\ handle' = [handle EXCEPT ![q] = nm]
            /\ hver' = [hver EXCEPT ![q] = disk]
            /\ Step("Build", q) /\ UNCHANGED <<cache, disk, gate, obs>>

(* the value the planner uses for the handle of q: memo on the object, else cache, else computed and stored *)
Fails(q) == gate /\ q \in Gated
Fresh(q) == q \in PQ => hver[q] = disk      \* a handle on the dataset built before it was rewritten is outside the property
Plan(q) == /\ handle[q] # <<>> /\ Fresh(q) /\ ~Fails(q)
           /\ LET nm == handle[q] k == KeyOf(q, disk) IN
              IF MemoOf(inst, nm) # None THEN UNCHANGED <<cache, inst>>
              ELSE IF k \in Keys(cache)
                   THEN /\ inst' = SetMemo(inst, nm, cache[Lookup(cache, k)][2]) /\ cache' = Touch(cache, k)
                   ELSE /\ inst' = SetMemo(inst, nm, Truth(q, disk)) /\ cache' = Put(cache, k, Truth(q, disk))
           /\ Step("Plan", q) /\ UNCHANGED <<handle, hver, disk, gate, obs>>
(* planning while a task fails: raises; CleanFailure = nothing is stored *)
FailPlan(q) == /\ handle[q] # <<>> /\ Fresh(q) /\ Fails(q) /\ MemoOf(inst, handle[q]) = None
               /\ KeyOf(q, disk) \notin Keys(cache)
               /\ IF CleanFailure THEN UNCHANGED <<cache, inst>>
                  ELSE /\ cache' = Put(cache, KeyOf(q, disk), Poison) /\ UNCHANGED inst
               /\ Step("FailPlan", q) /\ UNCHANGED <<handle, hver, disk, gate, obs>>
(* observing divisions / result / len of the handle: plans if needed, then reports the planner's value *)
Observe(q) == /\ handle[q] # <<>> /\ Fresh(q) /\ ~Fails(q)
              /\ LET nm == handle[q] k == KeyOf(q, disk)
                     val == IF MemoOf(inst, nm) # None THEN MemoOf(inst, nm)
                            ELSE IF k \in Keys(cache) THEN cache[Lookup(cache, k)][2] ELSE Truth(q, disk) IN
                 /\ obs' = [q |-> q, val |-> val, ver |-> disk]
                 /\ inst' = SetMemo(inst, nm, val)
                 /\ cache' = IF MemoOf(inst, nm) # None THEN cache ELSE IF k \in Keys(cache) THEN Touch(cache, k) ELSE Put(cache, k, val)
              /\ Step("Observe", q) /\ UNCHANGED <<handle, hver, disk, gate>>
(* del + gc.collect(): objects no handle refers to leave the table (weak values) *)
Discard(q) == /\ handle[q] # <<>>
              /\ handle' = [handle EXCEPT ![q] = <<>>] /\ hver' = [hver EXCEPT ![q] = 0]
              /\ LET held == {handle'[p] : p \in Queries} IN inst' = SelectSeq(inst, LAMBDA e : e[1] \in held)
              /\ Step("Discard", q) /\ UNCHANGED <<cache, disk, gate, obs>>
(* to_parquet(path, overwrite=True) clears the plan cache; a writer outside dask does not *)
RewriteDask == /\ disk < MaxVer /\ disk' = disk + 1
               /\ cache' = SelectSeq(cache, LAMBDA e : e[1][1] \notin PQ)
               /\ Step("RewriteDask", 0) /\ UNCHANGED <<inst, handle, hver, gate, obs>>
RewriteOutside == /\ disk < MaxVer /\ disk' = disk + 1
                  /\ Step("RewriteOutside", 0) /\ UNCHANGED <<cache, inst, handle, hver, gate, obs>>
(* the rest of the session: some other query is built, planned and dropped in one go - its entry pushes others out *)
Churn(f) == /\ cache' = IF <<f, 0>> \in Keys(cache) THEN Touch(cache, <<f, 0>>) ELSE Put(cache, <<f, 0>>, 10 * f)
            /\ Step("Churn", f) /\ UNCHANGED <<inst, handle, hver, disk, gate, obs>>
GateOn == ~gate /\ gate' = TRUE /\ Step("GateOn", 0) /\ UNCHANGED <<cache, inst, handle, hver, disk, obs>>
GateOff == gate /\ gate' = FALSE /\ Step("GateOff", 0) /\ UNCHANGED <<cache, inst, handle, hver, disk, obs>>

Next == /\ Len(hist) < MaxSteps
        /\ \/ \E q \in Queries : Build(q) \/ Plan(q) \/ FailPlan(q) \/ Observe(q) \/ Discard(q)
           \/ \E f \in Fillers : Churn(f)
           \/ RewriteDask \/ RewriteOutside \/ GateOn \/ GateOff
Spec == Init /\ [][Next]_vars

(* C15: whatever happened before, an observation is what the query yields alone in a fresh process (on the data as it is now) *)
Transparent == obs.q # 0 => obs.val = Truth(obs.q, obs.ver)
Bounded == Len(cache) <= Cap
(* every cache entry is right for every query that can read it - the inductive reason for Transparent *)
EntriesRight == \A i \in DOMAIN cache : \A q \in Queries : \A v \in 1..MaxVer :
                   (KeyOf(q, v) = cache[i][1] /\ (q \in PQ => KeyComplete \/ v = disk)) =>
                      (KeyComplete /\ CleanFailure => cache[i][2] = Truth(q, v))
HistView == <<cache, inst, handle, hver, disk, gate, obs>>
(* emission of behaviours for the driver (-simulate): the history of every state that reached the bound *)
EmitHist == (Len(hist) = MaxSteps) => PrintT("HIST|" \o ToJson(hist))
=============================================================================

---------------------------- MODULE RepartitionOps --------------------------
(***************************************************************************)
(* C13 - Repartitioning preserves rows and order and honours the layout.   *)
(*                                                                         *)
(* The planners of dask_expr/_repartition.py as deterministic state        *)
(* machines over small integers (one step = one loop iteration of the      *)
(* code), their plans interpreted by PlanSem, and the postconditions the   *)
(* property states.  The same step function drives                         *)
(*   - the design-level model check (Spec below, all (a, b, force)),       *)
(*   - the functional transcription used by RepartitionTrace to compare    *)
(*     the plan of the real code with the transcribed plan.                *)
(* Python indices are kept 0-based through At(s, i) == s[i + 1].           *)
(***************************************************************************)
EXTENDS PlanSem, SequencesExt, FiniteSetsExt

At(s, i) == s[i + 1]
Last_(s) == s[Len(s)]
Key(p, n) == p \o ToString(n)

(***************************************************************************)
(* RepartitionDivisions._layer                                             *)
(***************************************************************************)
SingleLastDiv(x) == Len(x) >= 2 /\ x[Len(x)] = x[Len(x) - 1]

Slice(src, lo, hi, rc) == [op |-> "slice", src |-> src, lo |-> lo, hi |-> hi, rc |-> rc]

RangeError(a, b, force) ==
    IF force THEN a[1] < b[1] \/ Last_(a) > Last_(b)
             ELSE a[1] # b[1] \/ Last_(a) # Last_(b)

RDInit(a, b, force) ==
    [pc |-> IF Len(b) < 2 \/ RangeError(a, b, force) THEN "rejected" ELSE "loop1",
     a |-> a, b |-> b, force |-> force,
     i |-> 1, j |-> 1, k |-> 0, low |-> a[1], c |-> <<a[1]>>,
     g |-> <<>>,                       \* the plan built so far: key -> task
     le |-> SingleLastDiv(a)]

RDLoop1(s) ==          \* one iteration of "while i < len(a) and j < len(b)"
    LET a == s.a  b == s.b  i == s.i  j == s.j
        ai == At(a, i)  bj == At(b, j)
        src == Key("i", i - 1)
        new == IF ai < bj THEN [hi |-> ai, i |-> i + 1, j |-> j]
               ELSE IF ai > bj THEN [hi |-> bj, i |-> i, j |-> j + 1]
               ELSE [hi |-> bj, i |-> i + 1,
                     j |-> IF Len(a) = i + 1 \/ ai < At(a, i + 1) THEN j + 1 ELSE j]
    IN [s EXCEPT !.g = s.g @@ (Key("s", s.k) :> Slice(src, s.low, new.hi, FALSE)),
                 !.low = new.hi, !.i = new.i, !.j = new.j,
                 !.c = Append(s.c, new.hi), !.k = s.k + 1,
                 !.pc = IF new.i < Len(a) /\ new.j < Len(b) THEN "loop1" ELSE "right"]

RECURSIVE RDRightFor(_, _)
RDRightFor(s, jj) ==   \* "for _j in range(j, len(b))": always slices the right-most old partition
    IF jj >= Len(s.b) THEN s
    ELSE RDRightFor([s EXCEPT !.g = s.g @@ (Key("s", s.k) :>
                                   Slice(Key("i", Len(s.a) - 2), s.low, At(s.b, jj), FALSE)),
                              !.low = At(s.b, jj), !.c = Append(s.c, At(s.b, jj)), !.k = s.k + 1],
                    jj + 1)

RDRight(s) ==
    LET a == s.a  b == s.b
        s1 == IF Last_(a) < Last_(b) \/ Last_(b) = b[Len(b) - 1]
              THEN RDRightFor(s, s.j)
              ELSE LET s0 == IF s.le /\ s.i < Len(a)
                             THEN [s EXCEPT !.g = s.g @@ (Key("s", s.k) :>
                                        Slice(Key("i", s.i - 1), At(a, s.i), At(a, s.i), FALSE)),
                                            !.k = s.k + 1]
                             ELSE s
                   IN [s0 EXCEPT !.c = Append(s0.c, Last_(a))]
        lastk == Key("s", s1.k - 1)
    IN [s1 EXCEPT !.g = [s1.g EXCEPT ![lastk] = [@ EXCEPT !.rc = TRUE]],   \* "replace last element with True"
                  !.i = 0, !.j = 1, !.le = SingleLastDiv(s1.c), !.pc = "loop2"]

(* inner while loops of the second phase; "crash" models Python's IndexError on c[i] *)
RECURSIVE RDTake1(_, _, _)
RDTake1(s, i, tmp) ==      \* while c[i] < b[j]
    IF i >= Len(s.c) THEN [crash |-> TRUE, i |-> i, tmp |-> tmp]
    ELSE IF At(s.c, i) < At(s.b, s.j) THEN RDTake1(s, i + 1, Append(tmp, Key("s", i)))
    ELSE [crash |-> FALSE, i |-> i, tmp |-> tmp]

RECURSIVE RDTake2(_, _, _)
RDTake2(s, i, tmp) ==      \* while last_elem and c[i] == b[-1] and (b[-1] != b[-2] or j == len(b)-1) and i < k
    IF ~s.le THEN [crash |-> FALSE, i |-> i, tmp |-> tmp]
    ELSE IF i >= Len(s.c) THEN [crash |-> TRUE, i |-> i, tmp |-> tmp]
    ELSE IF /\ At(s.c, i) = Last_(s.b)
            /\ (Last_(s.b) # s.b[Len(s.b) - 1] \/ s.j = Len(s.b) - 1)
            /\ i < s.k
         THEN RDTake2(s, i + 1, Append(tmp, Key("s", i)))
         ELSE [crash |-> FALSE, i |-> i, tmp |-> tmp]

RDLoop2(s) ==          \* one iteration of "while j < len(b)" of the assembling loop
    LET t1 == RDTake1(s, s.i, <<>>)
        t2 == IF t1.crash THEN t1 ELSE RDTake2(s, t1.i, t1.tmp)
        task == IF Len(t2.tmp) = 0 THEN Slice("i0", s.a[1], s.a[1], FALSE)
                ELSE IF Len(t2.tmp) = 1 THEN [op |-> "alias", src |-> t2.tmp[1]]
                ELSE [op |-> "concat", srcs |-> t2.tmp]
    IN IF t2.crash THEN [s EXCEPT !.pc = "crashed"]
       ELSE [s EXCEPT !.g = s.g @@ (Key("o", s.j - 1) :> task), !.i = t2.i, !.j = s.j + 1,
                      !.pc = IF s.j + 1 < Len(s.b) THEN "loop2" ELSE "done"]

RDStep(s) == CASE s.pc = "loop1" -> RDLoop1(s)
               [] s.pc = "right" -> RDRight(s)
               [] s.pc = "loop2" -> RDLoop2(s)
               [] OTHER -> s
RDFinal(s) == s.pc \in {"done", "rejected", "crashed"}

RECURSIVE RDIterate(_)
RDIterate(s) == IF RDFinal(s) THEN s ELSE RDIterate(RDStep(s))
RDPlan(a, b, force) == RDIterate(RDInit(a, b, force))      \* functional transcription

(***************************************************************************)
(* The universal dataset of old divisions a over the index values IV: old  *)
(* partition p holds every admissible label twice.  Slicing and            *)
(* concatenation treat rows independently, so any frame with divisions a   *)
(* and sorted partitions is a sub-sequence of it: a plan that loses,       *)
(* duplicates, misplaces or reorders a row of some frame does so here.     *)
(***************************************************************************)
Admissible(a, p, v) == /\ At(a, p) <= v
                       /\ (v < At(a, p + 1) \/ (p = Len(a) - 2 /\ v = At(a, p + 1)))
UniPart(a, p, IV) ==
    LET vs == SetToSortSeq({v \in IV : Admissible(a, p, v)}, <) IN
    FlattenSeq([n \in 1..Len(vs) |-> << <<vs[n], 1000 * p + 2 * vs[n]>>, <<vs[n], 1000 * p + 2 * vs[n] + 1>> >>])
UniInput(a, IV) == [key \in {Key("i", p) : p \in 0..(Len(a) - 2)} |->
                      UniPart(a, CHOOSE p \in 0..(Len(a) - 2) : Key("i", p) = key, IV)]
InSeq(a, inp) == FlattenSeq([p \in 1..(Len(a) - 1) |-> inp[Key("i", p - 1)]])

(***************************************************************************)
(* Postconditions of the property, stated on ANY plan g with outputs o0..  *)
(***************************************************************************)
OutKeys(n) == [j \in 1..n |-> Key("o", j - 1)]
DivOuts(g, b, inp) == RunOuts(g, OutKeys(Len(b) - 1), inp)

RowsPreserved(outs, a, inp) == FlattenSeq(outs) = InSeq(a, inp)      \* outs: sequence of row sequences
Honoured(outs, b) ==
    /\ Len(outs) = Len(b) - 1
    /\ \A j \in DOMAIN outs : \A n \in DOMAIN outs[j] :
          LET v == Idx(outs[j][n]) IN
            /\ b[j] <= v
            /\ (v < b[j + 1] \/ (j = Len(b) - 1 /\ v = b[j + 1]))

(* verdict for a divisions plan: "ok" or the name of the first failing clause *)
DivVerdict(g, complete, a, b, IV) ==
    LET inp == UniInput(a, IV)  IN
    IF ~complete THEN "PlannerCrash"
    ELSE IF ~Closed(g, inp) THEN "Closed"
    ELSE LET res == DivOuts(g, b, inp) IN
         IF ~NoErr(res) THEN "Evaluates"
         ELSE IF ~RowsPreserved(Vals(res), a, inp) THEN "RowsPreserved"
         ELSE IF ~Honoured(Vals(res), b) THEN "Honoured"
         ELSE "ok"

(***************************************************************************)
(* Count based variants                                                    *)
(***************************************************************************)
(* _clean_new_division_boundaries *)
CleanBounds(bs, n) ==
    LET b1 == IF bs[1] > 0 THEN <<0>> \o bs ELSE bs
    IN IF Last_(b1) < n THEN [b1 EXCEPT ![Len(b1)] = n] ELSE b1

(* RepartitionToFewer._partitions_boundaries: int(i * n_in / n_out) *)
FewerBounds(nin, nout) == CleanBounds([x \in 1..(nout + 1) |-> ((x - 1) * nin) \div nout], nin)
FewerPlan(nin, nout) ==
    LET bs == FewerBounds(nin, nout) IN
    [key \in {Key("o", x - 1) : x \in 1..(Len(bs) - 1)} |->
        LET x == CHOOSE y \in 1..(Len(bs) - 1) : Key("o", y - 1) = key IN
        [op |-> "concat", srcs |-> [n \in 1..(bs[x + 1] - bs[x]) |-> Key("i", bs[x] + n - 1)]]]

(* RepartitionToMore._nsplits and _layer *)
MoreSplits(nin, nout) == [p \in 1..nin |-> IF p = nin THEN (nout \div nin) + (nout % nin) ELSE nout \div nin]
RECURSIVE SumSeq(_)
SumSeq(s) == IF s = <<>> THEN 0 ELSE Head(s) + SumSeq(Tail(s))
MoreOffset(ns, p) == SumSeq(SubSeq(ns, 1, p - 1))      \* first output number of input partition p (1-based)
MorePlan(nin, nout) ==
    LET ns == MoreSplits(nin, nout)
        outs == UNION {{<<p, jj>> : jj \in 0..(ns[p] - 1)} : p \in 1..nin}
        splits == {p \in 1..nin : ns[p] # 1}
        gout == [key \in {Key("o", MoreOffset(ns, pj[1]) + pj[2]) : pj \in outs} |->
                   LET pj == CHOOSE q \in outs : Key("o", MoreOffset(ns, q[1]) + q[2]) = key IN
                   IF ns[pj[1]] = 1 THEN [op |-> "alias", src |-> Key("i", pj[1] - 1)]
                   ELSE [op |-> "getitem", src |-> Key("s", pj[1] - 1), i |-> pj[2]]]
        gsplit == [key \in {Key("s", p - 1) : p \in splits} |->
                   LET p == CHOOSE q \in splits : Key("s", q - 1) = key IN
                   [op |-> "split", src |-> Key("i", p - 1), n |-> ns[p]]]
    IN gout @@ gsplit

(* input for count based cases: partition p (0-based) has lens[p+1] rows, labels increasing *)
CountInput(lens) ==
    [key \in {Key("i", p) : p \in 0..(Len(lens) - 1)} |->
        LET p == CHOOSE q \in 0..(Len(lens) - 1) : Key("i", q) = key IN
        [n \in 1..lens[p + 1] |-> <<10 * p + n, 100 * p + n>>]]
CountInSeq(lens, inp) == FlattenSeq([p \in 1..Len(lens) |-> inp[Key("i", p - 1)]])

CountVerdict(g, nin, nout, lens) ==
    LET inp == CountInput(lens) IN
    IF ~Closed(g, inp) THEN "Closed"
    ELSE IF \E j \in 0..(nout - 1) : Key("o", j) \notin DOMAIN g THEN "Count"
    ELSE IF \E k \in DOMAIN g : k = Key("o", nout) THEN "Count"
    ELSE LET res == RunOuts(g, OutKeys(nout), inp) IN
         IF ~NoErr(res) THEN "Evaluates"
         ELSE IF FlattenSeq(Vals(res)) # CountInSeq(lens, inp) THEN "RowsPreserved"
         ELSE "ok"
=============================================================================

------------------------------ MODULE CumTrace ------------------------------
(***************************************************************************)
(* Conformance of real cumulative operations with spec/CumOps.tla.         *)
(* One line: [parts, out] - the partitions of one column as the harness    *)
(* built them (TLC-enumerated, spec/Cumulative.tla) and the partitions the *)
(* real operator returned (Series or one-column DataFrame, chosen by the   *)
(* CarryRule constant of the run: "series" / "frame").                     *)
(*   MeaningKept     the concatenated output is the cumulative operation   *)
(*                   over the concatenated input                           *)
(*   SameLayout      every output partition has the length of its input    *)
(* DIVERGE (information): the output differs from what the transcribed     *)
(* carry chain yields under this CarryRule.                                *)
(***************************************************************************)
EXTENDS CumOps, IOUtils

T == ndJsonDeserialize(IOEnv.TRACE_FILE)

Verdict(t) ==
    IF ~t.ok THEN "NoError"
    ELSE IF Len(t.out) # Len(t.parts) \/ \E i \in DOMAIN t.parts : Len(t.out[i]) # Len(t.parts[i]) THEN "SameLayout"
    ELSE IF FlattenSeq(t.out) # Cum(FlattenSeq(t.parts)) THEN "MeaningKept"
    ELSE "ok"
Diverges(t) == t.ok /\ t.out # [i \in DOMAIN t.parts |-> OutPart(t.parts, i)]

VARIABLES k, bad
TInit == k = 1 /\ bad = 0
TNext == /\ k <= Len(T)
         /\ LET v == Verdict(T[k]) IN
              /\ (v # "ok") => PrintT("REJECT|" \o ToString(T[k].tid) \o "|" \o v)
              /\ Diverges(T[k]) => PrintT("DIVERGE|" \o ToString(T[k].tid))
              /\ bad' = bad + (IF v = "ok" THEN 0 ELSE 1)
         /\ k' = k + 1
AllConsumed == TLCGet("stats").diameter = Len(T) + 1
=============================================================================

------------------------------ MODULE TreeTrace ------------------------------
(***************************************************************************)
(* Conformance of real tree-reduction layers with spec/TreeReduce.tla.     *)
(* One line = the layer dask-expr planned for n chunk outputs and a        *)
(* split_every value s (0 = False): [n, s, layer] with layer a sequence of *)
(* [node |-> [j, i], ops |-> <<[j, i], ...>>]; inputs are level 0, the     *)
(* root is [j |-> -1, i |-> 0].                                            *)
(* Judged on the RECORDED tree (any other tree with these properties is    *)
(* fine): Closed, ExactlyOnce / InOrder, FanIn.  A difference from the     *)
(* transcribed planner is reported as DIVERGE (information, no verdict).   *)
(***************************************************************************)
EXTENDS TreeOps, IOUtils

T == ndJsonDeserialize(IOEnv.TRACE_FILE)

Nd(r) == <<r.j, r.i>>
Defined(t) == {Nd(t.layer[k].node) : k \in DOMAIN t.layer}
OpsOf(t, node) == LET k == CHOOSE k \in DOMAIN t.layer : Nd(t.layer[k].node) = node IN [m \in DOMAIN t.layer[k].ops |-> Nd(t.layer[k].ops[m])]
RECURSIVE RLeaves(_, _, _)
RLeaves(t, node, fuel) == IF node[1] = 0 THEN <<node[2]>>
                          ELSE IF fuel = 0 \/ node \notin Defined(t) THEN <<-1>>
                          ELSE FlattenSeq([m \in DOMAIN OpsOf(t, node) |-> RLeaves(t, OpsOf(t, node)[m], fuel - 1)])
Verdict(t) ==
    IF Root \notin Defined(t) THEN "HasRoot"
    ELSE IF Cardinality(Defined(t)) # Len(t.layer) THEN "KeysUnique"
    ELSE IF \E k \in DOMAIN t.layer : \E m \in DOMAIN t.layer[k].ops : LET o == Nd(t.layer[k].ops[m]) IN o[1] # 0 /\ o \notin Defined(t) THEN "Closed"
    ELSE IF RLeaves(t, Root, Len(t.layer) + 1) # [k \in 1..t.n |-> k - 1] THEN "InOrder"
    ELSE IF t.s # 0 /\ \E k \in DOMAIN t.layer : Len(t.layer[k].ops) > t.s THEN "FanIn"
    ELSE IF \E k \in DOMAIN t.layer : Len(t.layer[k].ops) = 0 THEN "FanIn"
    ELSE "ok"
Diverges(t) == \/ Defined(t) # Nodes(t.n, t.s)
               \/ \E node \in Defined(t) \cap Nodes(t.n, t.s) : OpsOf(t, node) # Operands(t.n, t.s, node)

VARIABLES k, bad
TInit == k = 1 /\ bad = 0
TNext == /\ k <= Len(T)
         /\ LET v == Verdict(T[k]) IN
              /\ (v # "ok") => PrintT("REJECT|" \o ToString(T[k].tid) \o "|" \o v)
              /\ (v = "ok" /\ Diverges(T[k])) => PrintT("DIVERGE|" \o ToString(T[k].tid))
              /\ bad' = bad + (IF v = "ok" THEN 0 ELSE 1)
         /\ k' = k + 1
AllConsumed == TLCGet("stats").diameter = Len(T) + 1
=============================================================================

--------------------------- MODULE PartitionsOps ---------------------------
(***************************************************************************)
(* C11 - selecting partitions / leading / trailing rows commutes with the  *)
(* computation.  The expected value of every selection as a function of    *)
(* the per-partition contents of the fully computed collection.            *)
(* A partition is a sequence of row numbers (rows are numbered by the      *)
(* harness: equal number <=> equal index label and equal values).          *)
(***************************************************************************)
EXTENDS Naturals, Integers, Sequences, FiniteSets, TLC, SequencesExt

SeqRange(s) == {s[i] : i \in DOMAIN s}
HeadRows(rows, n) == SubSeq(rows, 1, IF n < Len(rows) THEN n ELSE Len(rows))
TailRows(rows, n) == SubSeq(rows, IF Len(rows) > n THEN Len(rows) - n + 1 ELSE 1, Len(rows))
Sorted(rows) == SortSeq(rows, <)

(* partitions[P]: P is a sequence of 0-based partition numbers (order and repetitions kept) *)
SelectExpected(full, P) == [j \in DOMAIN P |-> full[P[j] + 1]]
SelectionLegal(full, P) == \A j \in DOMAIN P : P[j] \in 0..(Len(full) - 1)

(* head(n, npartitions=k): the first n rows of the first k partitions (k = -1: all) *)
HeadK(full, k) == IF k <= -1 THEN Len(full) ELSE k
HeadLegal(full, k) == HeadK(full, k) <= Len(full)
HeadExpected(full, n, k) == HeadRows(FlattenSeq(SubSeq(full, 1, HeadK(full, k))), n)

(* tail(n): the last n rows of the last partition *)
TailExpected(full, n) == TailRows(full[Len(full)], n)

(* got is a prefix (suffix) of all rows, at most n long and at least as long as the letter of the property demands *)
LongerPrefix(got, all, want, n) == Len(got) <= n /\ Len(got) >= Len(want) /\ Len(got) <= Len(all) /\ got = SubSeq(all, 1, Len(got))
LongerSuffix(got, all, want, n) == Len(got) <= n /\ Len(got) >= Len(want) /\ Len(got) <= Len(all)
                                   /\ got = SubSeq(all, Len(all) - Len(got) + 1, Len(all))
SameParts(a, b, ordered) ==
    /\ Len(a) = Len(b)
    /\ \A j \in DOMAIN a : IF ordered THEN a[j] = b[j] ELSE Sorted(a[j]) = Sorted(b[j])
SameRows(a, b, ordered) == IF ordered THEN a = b ELSE Sorted(a) = Sorted(b)
(* where the row order inside partitions is unspecified (below a disk shuffle) "the first n rows" is any n of them *)
Count(rows, x) == Cardinality({i \in DOMAIN rows : rows[i] = x})
SubMultiset(a, b) == \A x \in SeqRange(a) : Count(a, x) <= Count(b, x)
AnyNOf(got, pool, n) == SubMultiset(got, pool) /\ Len(got) = (IF n < Len(pool) THEN n ELSE Len(pool))
=============================================================================

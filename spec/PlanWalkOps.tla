------------------------------ MODULE PlanWalkOps ---------------------------
(***************************************************************************)
(* C06, C07, C09: invariants over every node of every plan stage, and over *)
(* the task graph assembled from the nodes' layers.                        *)
(*                                                                         *)
(* Design-level part (checked by TLC on all small instances):              *)
(*   - Assemble: Expr.__dask_graph__ as a state machine - a stack walk     *)
(*     over the expression DAG with a `seen` set keyed by NAME, one layer  *)
(*     per node, merged by overwriting (toolz.merge).  With two distinct   *)
(*     expressions sharing a name (a collision, C08) the walk silently     *)
(*     keeps one of them: Unambiguous is what detects it.                  *)
(* Conformance part (PlanWalkTrace): the same invariants evaluated on what *)
(* the real code reported / computed / assembled.                          *)
(***************************************************************************)
EXTENDS Naturals, Integers, Sequences, FiniteSets, TLC, SequencesExt, FiniteSetsExt

SeqRange(s) == {s[i] : i \in DOMAIN s}
NullLabel == -1000001

(***************************************************************************)
(* C06 - reported partition structure is truthful                          *)
(* node: [np, known, div (sequence of ints), parts: sequence of            *)
(*        [len, imin, imax] (imin/imax over non-null labels; len = 0 or    *)
(*        only null labels => imin = imax = NullLabel)]                    *)
(***************************************************************************)
DivSorted(d) == \A i \in 1..(Len(d) - 1) : d[i] <= d[i + 1]
Truthful(n) ==
    IF Len(n.parts) # n.np THEN "PartitionCount"
    ELSE IF ~n.known THEN "ok"
    ELSE IF Len(n.div) # n.np + 1 THEN "DivisionsLength"
    ELSE IF ~DivSorted(n.div) THEN "DivisionsSorted"
    ELSE IF \E i \in 1..n.np :
              /\ n.parts[i].imin # NullLabel
              /\ \/ n.parts[i].imin < n.div[i]
                 \/ (i < n.np /\ n.parts[i].imax >= n.div[i + 1])
                 \/ (i = n.np /\ n.parts[i].imax > n.div[i + 1])
         THEN "WithinDivisions"
    ELSE "ok"
(* metadata-only row counts: lens = <<reported, counted>> pairs *)
LengthsTruthful(pairs) == \A i \in DOMAIN pairs : pairs[i][1] = pairs[i][2]

(***************************************************************************)
(* C07 - declared schema matches the computed data                         *)
(* schema: [kind, cols, name, iname, dkinds]  (dkinds: one letter per      *)
(* column: f float, i int, u uint, b bool, O object/string, M datetime...) *)
(***************************************************************************)
Promotes(declared, computed) ==                   \* pandas' own promotion when NULLs appear / empty partitions
    \/ declared = computed
    \/ (declared \in {"i", "u", "b"} /\ computed \in {"f", "O"})
    \/ (declared = "O" /\ computed = "O")
KindsMatch(d, c) == Len(d) = Len(c) /\ \A i \in DOMAIN d : Promotes(d[i], c[i])
SchemaMatches(decl, comp) ==
    IF decl.kind # comp.kind THEN "Kind"
    ELSE IF decl.cols # comp.cols THEN "Columns"
    ELSE IF decl.name # comp.name THEN "Name"
    ELSE IF decl.iname # comp.iname THEN "IndexName"
    ELSE IF ~KindsMatch(decl.dkinds, comp.dkinds) THEN "DtypeKind"
    ELSE "ok"
RECURSIVE FirstMismatch(_, _, _)
FirstMismatch(decl, parts, i) ==
    IF i > Len(parts) THEN "ok"
    ELSE LET v == SchemaMatches(decl, parts[i]) IN IF v # "ok" THEN "Partition:" \o v ELSE FirstMismatch(decl, parts, i + 1)

(***************************************************************************)
(* C09 - task graphs: closed, acyclic, unambiguous, free of planner objects *)
(* graph: sequence of entries [k (int key id), layer (int), tok (int task  *)
(* token), deps (sequence of key ids), planner (BOOLEAN)]; outputs: key ids *)
(***************************************************************************)
Keys(g) == {g[i].k : i \in DOMAIN g}
OutputsDefined(g, outs) == SeqRange(outs) \subseteq Keys(g)
Closed(g) == \A i \in DOMAIN g : SeqRange(g[i].deps) \subseteq Keys(g)
Unambiguous(g) == \A i, j \in DOMAIN g : g[i].k = g[j].k => g[i].tok = g[j].tok
NoPlanner(g) == \A i \in DOMAIN g : ~g[i].planner
(* acyclic <=> iterating "all deps ranked" reaches every key *)
RECURSIVE Ranked(_, _)
Ranked(g, done) ==
    LET more == {g[i].k : i \in {j \in DOMAIN g : g[j].k \notin done /\ SeqRange(g[j].deps) \subseteq done}} IN
    IF more = {} THEN done ELSE Ranked(g, done \cup more)
Acyclic(g) == Ranked(g, {}) = Keys(g)
GraphVerdict(g, outs) ==
    IF ~OutputsDefined(g, outs) THEN "OutputsDefined"
    ELSE IF ~Unambiguous(g) THEN "Unambiguous"
    ELSE IF ~Closed(g) THEN "Closed"
    ELSE IF ~NoPlanner(g) THEN "NoPlanner"
    ELSE IF ~Acyclic(g) THEN "Acyclic"
    ELSE "ok"
=============================================================================

--------------------------------- MODULE Rel ---------------------------------
(***************************************************************************)
(* Relational observations and the acceptance relation shared by the       *)
(* optimizer / partitioning properties (C01, C02, C03, C04, C10, C17).     *)
(*                                                                         *)
(* A result is  [ok |-> TRUE, t |-> Table]  or  [ok |-> FALSE, err |-> e]. *)
(* A Table is [kind, cols, name, iname, rows]; a row is a sequence of      *)
(* integers <<index label, v1, ..., vn>>; NULL is the integer Null.        *)
(* Values are encoded by the harness order-preservingly (scaled by 1000    *)
(* when a non-integral value occurs in the trace).                         *)
(***************************************************************************)
EXTENDS Naturals, Integers, Sequences, FiniteSets, TLC, SequencesExt

Null == -1000001
SeqRange(s) == {s[i] : i \in DOMAIN s}

NoIdx(r) == Tail(r)
Rows(t, withidx) == IF withidx THEN t.rows ELSE [i \in DOMAIN t.rows |-> NoIdx(t.rows[i])]

Count(rows, x) == Cardinality({i \in DOMAIN rows : rows[i] = x})
SameBag(a, b) == Len(a) = Len(b) /\ \A i \in DOMAIN a : Count(a, a[i]) = Count(b, a[i])
SubBagOf(a, b) == \A i \in DOMAIN a : Count(a, a[i]) <= Count(b, a[i])

(* x sorts before-or-equal y for one key; NULLs last (pandas/dask default na_position) *)
LeqKey(x, y, asc) == IF y = Null THEN TRUE ELSE IF x = Null THEN FALSE ELSE IF asc THEN x <= y ELSE x >= y
(* rows sorted by the key positions `ks` (positions inside the row incl. index at 1), lexicographic *)
RECURSIVE LexLeq(_, _, _, _)
LexLeq(r, s, ks, asc) ==
    IF ks = <<>> THEN TRUE
    ELSE IF r[Head(ks)] = s[Head(ks)] THEN LexLeq(r, s, Tail(ks), asc)
    ELSE LeqKey(r[Head(ks)], s[Head(ks)], asc)
SortedBy(rows, ks, asc) == \A i \in 1..(Len(rows) - 1) : LexLeq(rows[i], rows[i + 1], ks, asc)

(***************************************************************************)
(* Where does a query define the row order and the index labels of its     *)
(* result?  (dask-expr documents them as unspecified after hash joins,     *)
(* shuffles and shuffle-based reductions; a sort fixes the order only up   *)
(* to ties; reset_index restarts the labels in every partition.)           *)
(* QueryGen uses the same two operators for the schema of generated        *)
(* programs - there is one definition.                                     *)
(***************************************************************************)
RECURSIVE OrdDefined(_)
OrdDefined(q) ==
    IF q.op = "src" THEN TRUE
    ELSE CASE q.op \in {"merge", "sort", "setindex", "dropdup", "nlargest", "nsmallest", "unique", "valuecounts", "shuffle"} -> FALSE
           [] q.op \in {"groupby", "reduce", "len"} -> TRUE
           [] q.op = "mergeasof" -> OrdDefined(q.c[1])         \* one output row per left row, in the left order
           [] q.op = "combinefirst" -> FALSE        \* aligned through a hash shuffle when divisions are unknown
           [] OTHER -> OrdDefined(q.c[1])
RECURSIVE IdxDefined(_)
IdxDefined(q) ==
    IF q.op = "src" THEN TRUE
    ELSE CASE q.op \in {"merge", "unique"} -> FALSE
           [] q.op = "resetindex" -> FALSE
           [] q.op \in {"groupby", "reduce", "len", "setindex", "valuecounts"} -> TRUE
           [] q.op = "dropdup" -> IdxDefined(q.c[1]) /\ OrdDefined(q.c[1])   \* which duplicate survives (and so its label) follows the row order
           [] OTHER -> IdxDefined(q.c[1])          \* concat / combine_first keep the labels of their inputs

(***************************************************************************)
(* Acceptance of an observed table against a reference table.              *)
(*   ord   the query defines the row order          (else: compare as bags)*)
(*   idx   the query defines the index labels       (else: ignore them)    *)
(* returns "ok" or the name of the failing clause                          *)
(***************************************************************************)
SameSchema(e, g, idx) ==
    /\ e.kind = g.kind
    /\ e.cols = g.cols
    /\ e.name = g.name
    /\ (idx => e.iname = g.iname)

AcceptTable(e, g, ord, idx) ==
    IF e.kind # g.kind THEN "Kind"
    ELSE IF e.cols # g.cols THEN "Columns"
    ELSE IF e.name # g.name THEN "Name"
    ELSE IF idx /\ e.iname # g.iname /\ e.iname # "*" /\ g.iname # "*" THEN "IndexName"      \* "*": the partitions disagree on the name (unspecified)
    ELSE IF Len(e.rows) # Len(g.rows) THEN "RowCount"
    ELSE IF ord /\ Rows(e, idx) # Rows(g, idx) THEN "Rows"
    ELSE IF ~ord /\ ~SameBag(Rows(e, idx), Rows(g, idx)) THEN "RowsBag"
    ELSE "ok"

(* explicit refusals of the partitioned algorithms (C02): a window operation over partitions smaller than the
   window refuses instead of computing a different value *)
RECURSIVE HasWindowOp(_)
HasWindowOp(q) == IF q.op = "src" THEN FALSE
                  ELSE q.op \in {"shift", "diff", "ffill"} \/ HasWindowOp(q.c[1])
RECURSIVE HasOp(_, _)
HasOp(q, name) == IF q.op = "src" THEN FALSE ELSE q.op = name \/ HasOp(q.c[1], name)
IsRefusal(q, got) ==
    /\ ~got.ok
    /\ \/ (got.err = "NotImplementedError" /\ HasWindowOp(q))       \* "Partition size is less than overlapping window size"
       \/ (got.err = "ValueError" /\ HasOp(q, "ffill"))              \* "All NaN partition encountered in `fillna`"

(* ref, got: results.  A failing reference accepts everything ("optimizer rescued" is allowed);
   a succeeding reference demands success. *)
Accept(ref, got, ord, idx) ==
    IF ~ref.ok THEN "ok"
    ELSE IF ~got.ok THEN "NoNewError"
    ELSE AcceptTable(ref.t, got.t, ord, idx)

(***************************************************************************)
(* Predicates (C03): truth of a predicate tree on one row of a table.      *)
(* mode "numpy": comparisons with NULL are false except ne (true), not is  *)
(* boolean negation - what pandas does for numpy-backed columns.           *)
(* mode "kleene": three-valued (TRUE / FALSE / NULL as 1 / 0 / 2); a row is *)
(* kept only when the predicate is TRUE - nullable / arrow dtypes and the  *)
(* parquet reader's filters.                                               *)
(***************************************************************************)
ColPos(cols, c) == 1 + (CHOOSE i \in DOMAIN cols : cols[i] = c)        \* position in the row (index is 1)
CmpInt(f, x, y) == CASE f = "lt" -> x < y [] f = "le" -> x <= y [] f = "gt" -> x > y
                     [] f = "ge" -> x >= y [] f = "eq" -> x = y [] f = "ne" -> x # y

RECURSIVE TruthNumpy(_, _, _, _)
TruthNumpy(p, row, cols, scale) ==
    CASE p.p = "cmp" -> LET x == row[ColPos(cols, p.col)] IN
                          IF x = Null THEN p.f = "ne" ELSE CmpInt(p.f, x, p.v * scale)
      [] p.p = "cmpcol" -> LET x == row[ColPos(cols, p.col)]  y == row[ColPos(cols, p.col2)] IN
                          IF x = Null \/ y = Null THEN p.f = "ne" ELSE CmpInt(p.f, x, y)
      [] p.p = "isna" -> row[ColPos(cols, p.col)] = Null
      [] p.p = "isin" -> LET x == row[ColPos(cols, p.col)] IN x # Null /\ \E i \in DOMAIN p.vals : x = p.vals[i] * scale
      [] p.p = "and" -> TruthNumpy(p.a, row, cols, scale) /\ TruthNumpy(p.b, row, cols, scale)
      [] p.p = "or" -> TruthNumpy(p.a, row, cols, scale) \/ TruthNumpy(p.b, row, cols, scale)
      [] p.p = "not" -> ~TruthNumpy(p.a, row, cols, scale)

K3And(x, y) == IF x = 0 \/ y = 0 THEN 0 ELSE IF x = 1 /\ y = 1 THEN 1 ELSE 2
K3Or(x, y) == IF x = 1 \/ y = 1 THEN 1 ELSE IF x = 0 /\ y = 0 THEN 0 ELSE 2
K3Not(x) == IF x = 2 THEN 2 ELSE 1 - x
B3(b) == IF b THEN 1 ELSE 0
RECURSIVE TruthKleene(_, _, _, _)
TruthKleene(p, row, cols, scale) ==
    CASE p.p = "cmp" -> LET x == row[ColPos(cols, p.col)] IN IF x = Null THEN 2 ELSE B3(CmpInt(p.f, x, p.v * scale))
      [] p.p = "cmpcol" -> LET x == row[ColPos(cols, p.col)]  y == row[ColPos(cols, p.col2)] IN
                          IF x = Null \/ y = Null THEN 2 ELSE B3(CmpInt(p.f, x, y))
      [] p.p = "isna" -> B3(row[ColPos(cols, p.col)] = Null)
      [] p.p = "isin" -> LET x == row[ColPos(cols, p.col)] IN IF x = Null THEN 0 ELSE B3(\E i \in DOMAIN p.vals : x = p.vals[i] * scale)
      [] p.p = "and" -> K3And(TruthKleene(p.a, row, cols, scale), TruthKleene(p.b, row, cols, scale))
      [] p.p = "or" -> K3Or(TruthKleene(p.a, row, cols, scale), TruthKleene(p.b, row, cols, scale))
      [] p.p = "not" -> K3Not(TruthKleene(p.a, row, cols, scale))

Keep(p, row, cols, scale, mode) ==
    IF mode = "kleene" THEN TruthKleene(p, row, cols, scale) = 1 ELSE TruthNumpy(p, row, cols, scale)
FilterRows(t, p, scale, mode) == SelectSeq(t.rows, LAMBDA r : Keep(p, r, t.cols, scale, mode))
=============================================================================

-------------------------------- MODULE CumOps --------------------------------
(***************************************************************************)
(* Cumulative operations over partitions (dask_expr/_cumulative.py):       *)
(* CumulativeBlockwise (cum inside every partition), TakeLast (the value a *)
(* partition carries over), CumulativeFinalize (the carry chain),          *)
(* transcribed for one column.                                             *)
(*                                                                         *)
(*   chunk[i]  = cum(part[i])              nulls stay null, are skipped    *)
(*   last[i]   = TakeLast(chunk[i])        None | a value | NULL           *)
(*   inter[1]  = last[0]; inter[i] = carry(inter[i-1], last[i-1])          *)
(*   out[0] = chunk[0]; out[i] = carry(chunk[i], inter[i]) element-wise    *)
(*   carry(x, None) = x, carry(None, y) = y, else aggregate(x, y)          *)
(*                                                                         *)
(* TakeLast differs by container (CarryRule):                              *)
(*   "series"   empty or all-null partition -> None, else last non-null    *)
(*   "frame"    empty partition -> None, else ffill().tail(1): an all-null *)
(*              COLUMN of a non-empty partition carries NULL               *)
(*   "percol"   (sound for frames) per column like "series"                *)
(* aggregate(x, NULL) for sum is x + NaN = NaN in the code: a NULL carry   *)
(* poisons every later row - the mechanism of known finding F13.           *)
(*                                                                         *)
(* TLC checks MeaningKept - the concatenated output equals the cumulative  *)
(* operation over the concatenated input - for every partitioning of every *)
(* value sequence up to the bounds: holds for "series" and "percol", is    *)
(* refuted for "frame" (negative control = F13).                           *)
(***************************************************************************)
EXTENDS Naturals, Integers, Sequences, FiniteSets, TLC, SequencesExt, Json

CONSTANTS CarryRule, Op        \* Op \in {"sum", "max", "min"}

Null == -1000001
None == -1000002
Agg(x, y) == CASE Op = "sum" -> x + y [] Op = "max" -> (IF x >= y THEN x ELSE y) [] Op = "min" -> (IF x <= y THEN x ELSE y)
(* the aggregate functions on values: x + NaN = NaN; cummax_aggregate is x.where((x > y) | x.isnull(), y): a null x stays, a null y wins *)
AggV(x, y) == IF x = Null \/ y = Null THEN Null ELSE Agg(x, y)

(* cum inside one sequence, skipping nulls *)
RECURSIVE CumFrom(_, _, _)
CumFrom(s, i, acc) == IF i > Len(s) THEN <<>>
                      ELSE IF s[i] = Null THEN <<Null>> \o CumFrom(s, i + 1, acc)
                      ELSE LET a == IF acc = None THEN s[i] ELSE Agg(acc, s[i]) IN <<a>> \o CumFrom(s, i + 1, a)
Cum(s) == CumFrom(s, 1, None)
NonNull(s) == SelectSeq(s, LAMBDA x : x # Null)
TakeLast(ch) == CASE CarryRule \in {"series", "percol"} -> (IF NonNull(ch) = <<>> THEN None ELSE NonNull(ch)[Len(NonNull(ch))])
                  [] CarryRule = "frame" -> (IF ch = <<>> THEN None ELSE IF NonNull(ch) = <<>> THEN Null ELSE NonNull(ch)[Len(NonNull(ch))])
Carry(x, y) == IF x = None THEN y ELSE IF y = None THEN x ELSE AggV(x, y)
RECURSIVE Inter(_, _)
Inter(parts, i) == IF i = 2 THEN TakeLast(Cum(parts[1])) ELSE Carry(Inter(parts, i - 1), TakeLast(Cum(parts[i - 1])))       \* 1-based: the carry INTO partition i
(* a null element of the chunk stays null: the code aggregates element-wise and NaN + c = NaN, max(NaN, c) keeps NaN through `where` *)
OutPart(parts, i) == IF i = 1 THEN Cum(parts[1])
                     ELSE LET c == Inter(parts, i) ch == Cum(parts[i]) IN
                          [k \in DOMAIN ch |-> IF c = None THEN ch[k] ELSE IF ch[k] = Null THEN Null ELSE AggV(ch[k], c)]
Out(parts) == FlattenSeq([i \in DOMAIN parts |-> OutPart(parts, i)])

=============================================================================

---------------------------- MODULE ParquetTrace ----------------------------
(***************************************************************************)
(* C18 conformance: one trace line = one case of spec/Parquet.tla realized *)
(* with real files and the real readers.                                   *)
(*   written   the table that was written (rows in file-name order), with  *)
(*             files[i] = number of rows of file i                         *)
(*   case      the case record emitted by Parquet.tla (layout, reader,     *)
(*             predicate tree, user filters, projection, selection, term)  *)
(*   inmem     the query executed WITHOUT optimization (everything is read *)
(*             and the work is done in memory)                             *)
(*   obs[i]    optimized executions (pushed-down work), each with a label  *)
(*   plan      what the optimized frame-level plan reports: divisions and  *)
(*             per output partition the smallest / largest index label     *)
(*   guard     outcome of overwriting the dataset the query still reads    *)
(* The expected result is COMPUTED HERE from `written` with Rel!Keep:      *)
(* user-supplied reader filters (null-aware !=) and query predicates.      *)
(***************************************************************************)
EXTENDS Rel, Json, IOUtils

T == ndJsonDeserialize(IOEnv.TRACE_FILE)

(* ------------------------------------------------------------ expectation from the written table *)
PosOf(cols, col) == IF col = "ix" THEN 1 ELSE ColPos(cols, col)
(* user-supplied reader filters: a null matches no comparison except != (dask's null-aware conversion, both readers) *)
AtomTrue(a, row, cols, scale) == LET x == row[PosOf(cols, a.col)] IN IF x = Null THEN a.f = "ne" ELSE CmpInt(a.f, x, a.v * scale)
KeepUF(uf, row, cols, scale) == uf = <<>> \/ \E i \in DOMAIN uf : \A j \in DOMAIN uf[i] : AtomTrue(uf[i][j], row, cols, scale)
KeepPred(p, row, cols, scale) == p.p = "none" \/ Keep(p, row, cols, scale, "numpy")
ProjectRow(row, cols, proj) == <<row[1]>> \o [i \in DOMAIN proj |-> row[ColPos(cols, proj[i])]]

ExpectedRows(t) ==
    LET w == t.written  cs == t.case IN
    LET kept == SelectSeq(w.rows, LAMBDA r : KeepUF(cs.uf, r, w.cols, t.scale) /\ KeepPred(cs.pred, r, w.cols, t.scale)) IN
    IF cs.proj = <<>> THEN kept ELSE [i \in DOMAIN kept |-> ProjectRow(kept[i], w.cols, cs.proj)]
ExpectedCols(t) == IF t.case.proj = <<>> THEN t.written.cols ELSE t.case.proj
ExpectedTable(t) ==
    LET rows == ExpectedRows(t)  cols == ExpectedCols(t) IN
    LET iname == IF t.readback.ok THEN t.readback.t.iname ELSE t.written.iname IN      \* the index NAME is judged once, by RoundTrip
    CASE t.case.term = "frame" -> [kind |-> "frame", cols |-> cols, name |-> "", iname |-> iname, rows |-> rows]
      [] t.case.term = "len" -> [kind |-> "scalar", cols |-> <<>>, name |-> "", iname |-> "", rows |-> <<<<0, Len(rows)>>>>]
      [] t.case.term = "col" -> [kind |-> "series", cols |-> <<>>, name |-> "a", iname |-> iname,
                                 rows |-> [i \in DOMAIN rows |-> <<rows[i][1], rows[i][ColPos(cols, "a")]>>]]

(* the order in which the rows come back is the order of the file names for the fsspec reader; the arrow reader lists
   the directory in an unspecified order unless it sorted the files for the divisions *)
(* with a disjunction of user filters the fsspec reader keeps the parts matched by the first conjunction first: part order,
   and so row order, is not the file order any more (divisions are unknown then) *)
OrderDefined(t) == (t.case.rd.fs = "fsspec" /\ Len(t.case.uf) <= 1) \/ t.case.term = "len"

RECURSIVE BadObs(_, _, _)
BadObs(t, i, acc) ==
    IF i > Len(t.obs) THEN acc
    ELSE LET o == t.obs[i]
             v1 == Accept(t.inmem, o.res, OrderDefined(t), TRUE)                       \* pushed-down work == work in memory
             v2 == IF t.case.parts # <<>> \/ ~o.res.ok \/ v1 # "ok" THEN "ok"
                   ELSE AcceptTable(ExpectedTable(t), o.res.t, OrderDefined(t), TRUE)     \* == what was written
             v == IF v1 # "ok" THEN "InMemory." \o v1 ELSE IF v2 # "ok" THEN "Written." \o v2 ELSE "ok"
         IN BadObs(t, i + 1, IF v = "ok" \/ acc # "" THEN acc ELSE o.label \o ":" \o v)

(* reading everything back: same data, index (labels and name) in file order *)
RoundTrip(t) ==
    IF ~t.readback.ok THEN "RoundTrip.Error"
    ELSE LET v == AcceptTable([kind |-> "frame", cols |-> t.written.cols, name |-> "", iname |-> t.written.iname, rows |-> t.written.rows], t.readback.t, t.case.rd.fs = "fsspec", TRUE)
         IN IF v = "ok" THEN "ok" ELSE "RoundTrip." \o v

(* divisions reported by the plan: sorted, and every output partition holds labels within its pair of divisions *)
PlanDivisions(t) ==
    LET p == t.plan IN
    IF ~p.ok THEN "ok"
    ELSE IF p.known /\ Len(p.div) # p.np + 1 THEN "Divisions.Length"
    ELSE IF p.known /\ \E i \in 1..(Len(p.div) - 1) : p.div[i] > p.div[i + 1] THEN "Divisions.Sorted"
    ELSE IF p.known /\ \E i \in DOMAIN p.minmax : p.minmax[i] # <<>> /\ (p.minmax[i][1] < p.div[i] \/ p.minmax[i][2] > p.div[i + 1]) THEN "Divisions.Truthful"
    ELSE IF t.must_know /\ ~p.known THEN "Divisions.Requested"                         \* sorted disjoint files, calculate_divisions=True, nothing selected or filtered
    ELSE IF t.must_know /\ p.fused = <<>> /\ p.div # t.case.divs THEN "Divisions.Value"
    ELSE IF t.must_know /\ \E i \in DOMAIN p.fused : p.fused[i].known /\ p.fused[i].inner_div # t.case.divs THEN "Divisions.Value"   \* fused read: the reader's own divisions (FusedOK ties the fused ones to them)
    ELSE "ok"

(* multi-file fused reads (FusedIO): the buckets are the selected partitions, in order, cut into consecutive runs; the fused
   divisions are the reader's divisions at the first partition of every bucket, closed by the division AFTER the last
   fused partition (spec/Parquet.tla FusedDivs, rule "division") *)
FlatB(f) == FlattenSeq(f.buckets)
FusedOK(f) ==
    IF FlatB(f) # f.sel THEN "Fused.Buckets"
    ELSE IF \E i \in DOMAIN f.buckets : f.buckets[i] = <<>> THEN "Fused.Buckets"
    ELSE IF ~f.known THEN "ok"
    ELSE IF Len(f.div) # Len(f.buckets) + 1 THEN "Fused.Divisions"
    ELSE IF \E i \in DOMAIN f.buckets : f.div[i] # f.inner_div[f.buckets[i][1] + 1] THEN "Fused.Divisions"
    ELSE IF f.div[Len(f.div)] # f.inner_div[f.sel[Len(f.sel)] + 2] THEN "Fused.Divisions"
    ELSE "ok"
RECURSIVE FusedAll(_, _)
FusedAll(fs, i) == IF i > Len(fs) THEN "ok" ELSE IF FusedOK(fs[i]) # "ok" THEN FusedOK(fs[i]) ELSE FusedAll(fs, i + 1)

(* overwriting the dataset the query still reads is refused, and the dataset is intact afterwards *)
Guard(t) == IF ~t.guard.tried THEN "ok"
            ELSE IF ~t.guard.refused THEN "OverwriteRefused"
            ELSE IF ~t.guard.intact THEN "OverwriteLeftIntact"
            ELSE "ok"

(* every failing clause, joined by ";" - one defect must not hide another *)
Join(a, b) == IF a = "ok" THEN b ELSE IF b = "ok" THEN a ELSE a \o ";" \o b
Verdict(t) ==
    IF ~t.inmem.ok THEN (IF t.readback.ok THEN "ok" ELSE RoundTrip(t))          \* the query cannot be executed in memory either: outside the property
    ELSE LET b == BadObs(t, 1, "") IN
         Join(Join(RoundTrip(t), IF b = "" THEN "ok" ELSE b), Join(Join(PlanDivisions(t), IF t.plan.ok THEN FusedAll(t.plan.fused, 1) ELSE "ok"), Guard(t)))

VARIABLES n, bad
Init == n = 1 /\ bad = 0
Next == /\ n <= Len(T)
        /\ LET v == Verdict(T[n]) IN
             /\ (v # "ok") => PrintT("REJECT|" \o ToString(T[n].tid) \o "|" \o v)
             /\ bad' = bad + (IF v = "ok" THEN 0 ELSE 1)
        /\ n' = n + 1
AllConsumed == TLCGet("stats").diameter = Len(T) + 1
=============================================================================

----------------------------- MODULE ShuffleOps -----------------------------
(***************************************************************************)
(* C12 - a shuffle is a permutation that routes every row to the partition *)
(* its routing number names, for every implementation, stage structure and *)
(* requested subset of output partitions.                                  *)
(*                                                                         *)
(* Transcription of SimpleShuffle._layer, TaskShuffle._layer and           *)
(* DiskShuffle._layer (dask_expr/_shuffle.py) as plan builders over the    *)
(* plan algebra below, the meaning of those plans, and the postconditions. *)
(* Rows are <<label, rid, p>> : p is the value of the "_partitions" column *)
(* (the routing number computed by AssignPartitioningIndex).               *)
(***************************************************************************)
EXTENDS Naturals, Integers, Sequences, FiniteSets, TLC, SequencesExt, FiniteSetsExt

RECURSIVE Pow(_, _)
Pow(b, e) == IF e = 0 THEN 1 ELSE b * Pow(b, e - 1)
SeqRange(s) == {s[i] : i \in DOMAIN s}
At(s, i) == s[i + 1]

(* math.ceil(math.log(n) / math.log(mb)) and math.ceil(n ** (1 / stages)) in exact arithmetic;   *)
(* the real code computes them in floating point - the trace carries the real values and any    *)
(* difference is reported as a divergence; the postconditions are evaluated on the REAL plan.   *)
Stages(n, mb) == CHOOSE s \in 1..(n + 1) : Pow(mb, s) >= n /\ (s = 1 \/ Pow(mb, s - 1) < n)
NSplits(n, st) == IF st > 1 THEN CHOOSE k \in 1..(n + 1) : Pow(k, st) >= n /\ (k = 1 \/ Pow(k - 1, st) < n) ELSE n

DigitOf(i, j, k) == (i \div Pow(k, j)) % k                       \* dask.utils.digit
Digits(i, st, k) == [j \in 1..st |-> DigitOf(i, j - 1, k)]        \* inputs[i]
Insert(t, pos, v) == [t EXCEPT ![pos + 1] = v]                   \* dask.utils.insert (0-based pos)
RECURSIVE PartOf(_, _, _)
PartOf(t, k, j) == IF j > Len(t) THEN 0 ELSE t[j] * Pow(k, j - 1) + PartOf(t, k, j + 1)    \* inp_part_map

RECURSIVE JoinInts(_)
JoinInts(t) == IF Len(t) = 0 THEN "" ELSE IF Len(t) = 1 THEN ToString(t[1]) ELSE ToString(t[1]) \o "_" \o JoinInts(Tail(t))
K1(p, n) == p \o ToString(n)
GKey(stage, inp) == "g" \o ToString(stage) \o "_" \o JoinInts(inp)
PKey(stage, idx, inp) == "p" \o ToString(stage) \o "_" \o ToString(idx) \o "_" \o JoinInts(inp)
TKey(stage, n) == "t" \o ToString(stage) \o "_" \o ToString(n)
EKey(stage, inp) == "e" \o ToString(stage) \o "_" \o JoinInts(inp)

(* plan tasks *)
TGroup(src, stage, k, nmod, keep) == [op |-> "group", src |-> src, stage |-> stage, k |-> k, nmod |-> nmod, keep |-> keep]
TGet(src, i) == [op |-> "getitem", src |-> src, i |-> i]
TConcat(srcs) == [op |-> "concat", srcs |-> srcs]
NoFilter == <<-1>>                                   \* "keep" of an unfiltered shuffle_group

(* build a plan (function key -> task) from a set of <<key, task>> pairs *)
PlanOf(pairs) == [key \in {pr[1] : pr \in pairs} |-> (CHOOSE pr \in pairs : pr[1] = key)[2]]

(***************************************************************************)
(* SimpleShuffle._layer                                                    *)
(***************************************************************************)
SimplePlan(nin, nout, parts, filtered) ==
    LET keep == IF filtered THEN parts ELSE NoFilter
        outs == {<<K1("o", j - 1), TConcat([i \in 1..nin |-> PKey(0, parts[j], <<i - 1>>)])>> : j \in DOMAIN parts}
        splits == {<<PKey(0, parts[j], <<i>>), TGet(GKey(0, <<i>>), parts[j])>> : j \in DOMAIN parts, i \in 0..(nin - 1)}
        groups == {<<GKey(0, <<i>>), TGroup(K1("i", i), 0, nout, nout, keep)>> : i \in 0..(nin - 1)}
    IN PlanOf(outs \cup splits \cup groups)

(***************************************************************************)
(* TaskShuffle._layer                                                      *)
(***************************************************************************)
IsStaged(nin, mb, parts) == ~(Len(parts) <= mb \/ nin <= mb)

StagePairs(nin, nout, parts, filtered, st, k, stage) ==
    LET last == stage = st - 1 /\ nout = nin
        pout == IF last THEN parts ELSE [x \in 1..Pow(k, st) |-> x - 1]
        keep == IF last /\ filtered THEN parts ELSE NoFilter
        outkey(g) == IF last THEN K1("o", g - 1) ELSE TKey(stage, g - 1)
        inkey(pn) == IF stage = 0 THEN (IF pn < nin THEN K1("i", pn) ELSE "EMPTY") ELSE TKey(stage - 1, pn)
        outs == {<<outkey(g), TConcat([i \in 1..k |->
                       PKey(stage, At(Digits(pout[g], st, k), stage), Insert(Digits(pout[g], st, k), stage, i - 1))])>> : g \in DOMAIN pout}
        splits == {<<PKey(stage, At(Digits(pout[g], st, k), stage), Insert(Digits(pout[g], st, k), stage, i)),
                     TGet(GKey(stage, Insert(Digits(pout[g], st, k), stage, i)), At(Digits(pout[g], st, k), stage))>> :
                        g \in DOMAIN pout, i \in 0..(k - 1)}
        inps == {Insert(Digits(pout[g], st, k), stage, i) : g \in DOMAIN pout, i \in 0..(k - 1)}
        groups == {<<GKey(stage, inp),
                     IF inkey(PartOf(inp, k, 1)) = "EMPTY"
                     THEN TGroup(EKey(stage, inp), stage, k, nin, keep)
                     ELSE TGroup(inkey(PartOf(inp, k, 1)), stage, k, nin, keep)>> : inp \in inps}
        empties == {<<EKey(stage, inp), [op |-> "empty"]>> : inp \in {x \in inps : stage = 0 /\ PartOf(x, k, 1) >= nin}}
    IN outs \cup splits \cup groups \cup empties

RegroupPairs(nin, nout, parts, st) ==
    {<<K1("r", i), [op |-> "group2", src |-> TKey(st - 1, i)]>> : i \in 0..(nin - 1)}
    \cup {<<K1("o", j - 1), [op |-> "gget", src |-> K1("r", parts[j] % nin), i |-> parts[j]]>> : j \in DOMAIN parts}

TaskPlan(nin, nout, mb, parts, filtered) ==
    IF ~IsStaged(nin, mb, parts) THEN SimplePlan(nin, nout, parts, filtered)
    ELSE LET st == Stages(nin, mb)
             k == NSplits(nin, st)
         IN PlanOf(UNION {StagePairs(nin, nout, parts, filtered, st, k, stage) : stage \in 0..(st - 1)}
                   \cup (IF nout # nin THEN RegroupPairs(nin, nout, parts, st) ELSE {}))

(***************************************************************************)
(* DiskShuffle._layer                                                      *)
(***************************************************************************)
DiskPlan(nin, nout, parts) ==
    PlanOf({<<K1("d", i), [op |-> "diskput", src |-> K1("i", i), keep |-> parts]>> : i \in 0..(nin - 1)}
           \cup {<<"barrier", [op |-> "barrier", srcs |-> [i \in 1..nin |-> K1("d", i - 1)]]>>}
           \cup {<<K1("o", j - 1), [op |-> "collect", part |-> parts[j], src |-> "barrier"]>> : j \in DOMAIN parts})

(***************************************************************************)
(* Meaning of shuffle plans.  Values: Ok(rows) | Ok(dict) | ERR            *)
(***************************************************************************)
ERR == [ok |-> FALSE, v |-> <<>>]
Ok(v) == [ok |-> TRUE, v |-> v]

RECURSIVE Run(_, _, _, _)
Run(g, k, inp, fuel) ==
  IF k \in DOMAIN inp THEN Ok(inp[k])
  ELSE IF k \notin DOMAIN g \/ fuel = 0 THEN ERR
  ELSE LET t == g[k] IN
    IF t.op = "empty" THEN Ok(<<>>)
    ELSE IF t.op \in {"concat", "barrier"} THEN
        LET vs == [i \in DOMAIN t.srcs |-> Run(g, t.srcs[i], inp, fuel - 1)] IN
        IF \E i \in DOMAIN vs : ~vs[i].ok THEN ERR ELSE Ok(FlattenSeq([i \in DOMAIN vs |-> vs[i].v]))
    ELSE LET x == Run(g, t.src, inp, fuel - 1) IN
      IF ~x.ok THEN ERR ELSE LET v == x.v IN
      CASE t.op = "alias" -> x
        [] t.op = "group" ->      \* SimpleShuffle._shuffle_group: dict digit -> rows, keys restricted to the filter
             Ok([d \in {y \in 0..(t.k - 1) : t.keep = NoFilter \/ y \in SeqRange(t.keep)} |->
                   SelectSeq(v, LAMBDA r : ((r[3] % t.nmod) \div Pow(t.k, t.stage)) % t.k = d)])
        [] t.op = "getitem" -> IF t.i \in DOMAIN v THEN Ok(v[t.i]) ELSE ERR          \* KeyError
        [] t.op = "group2" ->    \* shuffle_group_2: ({}, head) for an empty frame, else dict 0..max(p)
             Ok(IF v = <<>> THEN <<>>
                ELSE LET mx == Max({v[n][3] : n \in DOMAIN v}) IN
                     [d \in 0..mx |-> SelectSeq(v, LAMBDA r : r[3] = d)])
        [] t.op = "gget" ->      \* shuffle_group_get: g[i] if present, else the empty head
             Ok(IF t.i \in DOMAIN v /\ v # <<>> THEN v[t.i] ELSE <<>>)
        [] t.op = "diskput" ->   \* groups of the input by routing number, only those in the filter, appended to partd
             Ok(SelectSeq(v, LAMBDA r : r[3] \in SeqRange(t.keep)))
        [] t.op = "collect" ->   \* everything appended for this partition number (order = append order: unspecified)
             Ok(SelectSeq(v, LAMBDA r : r[3] = t.part))
        [] OTHER -> ERR

Fuel(g) == Cardinality(DOMAIN g) + 2
Refs(t) == IF t.op \in {"concat", "barrier"} THEN SeqRange(t.srcs) ELSE IF t.op = "empty" THEN {} ELSE {t.src}
Closed(g, inp) == \A k \in DOMAIN g : Refs(g[k]) \subseteq (DOMAIN g \cup DOMAIN inp)

(* universal dataset: every input partition holds two rows for every routing number *)
UniInput(nin, nout) == [key \in {K1("i", i) : i \in 0..(nin - 1)} |->
    LET i == CHOOSE x \in 0..(nin - 1) : K1("i", x) = key IN
    FlattenSeq([p \in 1..nout |-> << <<0, 100 * i + 2 * (p - 1), p - 1>>, <<0, 100 * i + 2 * (p - 1) + 1, p - 1>> >>])]

RidsSorted(rows) == SortSeq([n \in DOMAIN rows |-> rows[n][2]], <)
AllRows(nin, inp) == FlattenSeq([i \in 1..nin |-> inp[K1("i", i - 1)]])

(* verdict of a plan g for the selection `parts` of output partitions, on inputs inp *)
ShuffleVerdict(g, nin, parts, inp) ==
    IF ~Closed(g, inp) THEN "Closed"
    ELSE LET res == [j \in DOMAIN parts |-> Run(g, K1("o", j - 1), inp, Fuel(g))] IN
         IF \E j \in DOMAIN res : ~res[j].ok THEN "Evaluates"
         ELSE IF \E j \in DOMAIN parts :
                   RidsSorted(res[j].v) # RidsSorted(SelectSeq(AllRows(nin, inp), LAMBDA r : r[3] = parts[j]))
              THEN "Routed"
         ELSE "ok"
OutRids(g, parts, inp) == [j \in DOMAIN parts |-> LET r == Run(g, K1("o", j - 1), inp, Fuel(g)) IN
                                                   IF r.ok THEN RidsSorted(r.v) ELSE <<-1>>]
=============================================================================

------------------------------- MODULE Parquet -------------------------------
(***************************************************************************)
(* C18 - parquet reads with pushed-down work equal reading everything into *)
(* memory.                                                                 *)
(*                                                                         *)
(* A state of this module is one CASE: a small dataset layout, a reader    *)
(* configuration and a query on the parquet-backed collection.  TLC        *)
(* enumerates the case space (per Focus) and evaluates in every state the  *)
(* design rules the planner applies to that case:                          *)
(*                                                                         *)
(*  PushSound      a predicate the planner moves INTO the reader keeps     *)
(*                 exactly the rows the in-memory filter keeps, for every  *)
(*                 row over {NULL, 0..3}^2.  The reader evaluates filters  *)
(*                 three-valued (a comparison with NULL is NULL, the row   *)
(*                 is dropped) - unless `!=` is made null-aware -, pandas  *)
(*                 two-valued (NULL != v is TRUE): ReaderTruth / Rel!Keep. *)
(*  DivTruthful    divisions derived from per-file min/max statistics of   *)
(*                 the index cover what the files hold, in the order the   *)
(*                 fragments are handed out.                               *)
(*  FusedDivOK     fusing consecutive files into one partition keeps the   *)
(*                 outer divisions.                                        *)
(*  LenFromStats   a length answered from statistics counts the rows of    *)
(*                 the row groups of the partition, and is not used when   *)
(*                 a filter is present.                                    *)
(*                                                                         *)
(* Switches select the rule "as implemented at the pinned commit" or the   *)
(* sound one; the check runs both (the implemented ones that are unsound   *)
(* are the negative controls and document the findings).                   *)
(* The same states are emitted (Emit) as the cases the driver realizes     *)
(* with real files and both reader implementations.                        *)
(***************************************************************************)
EXTENDS Rel, Json

CONSTANTS Focus,       \* "filter" | "layout" | "mixed"
          PushNE,      \* TRUE: `!=` comparisons are pushed into the reader
          NullAwareNE, \* TRUE: the reader keeps nulls for `!=` (dask's _filters_to_expression: is_null | expr); FALSE: pyarrow's
                       \* filters_to_expression, three-valued (the arrow reader of the pinned commit)
          DivRule,     \* "sorted-pairs": files sorted by (min, max) are taken as divisions (pinned arrow reader)
                       \* "disjoint": additionally max[i] <= min[i+1] is required (sorted_columns of the fsspec reader)
          FusedLast    \* "index": the last fused division is the id of the last partition (pinned) | "division"

Cols == <<"a", "b", "k">>
Ops == {"lt", "le", "gt", "ge", "eq", "ne"}

(* ------------------------------------------------------------ predicates *)
AtomsOver(cs, vs) == {[p |-> "cmp", col |-> c, f |-> f, v |-> v] : c \in cs, f \in Ops, v \in vs}
Atoms == AtomsOver({"a", "b"}, {1, 2})
FewAtoms == AtomsOver({"a"}, {1}) \cup {[p |-> "cmp", col |-> "b", f |-> "ne", v |-> 2], [p |-> "cmp", col |-> "b", f |-> "le", v |-> 1]}
Other == {[p |-> "isna", col |-> "a"], [p |-> "isin", col |-> "b", vals |-> <<0, 2>>], [p |-> "not", a |-> [p |-> "cmp", col |-> "a", f |-> "gt", v |-> 1]],
          [p |-> "cmpcol", col |-> "a", f |-> "lt", col2 |-> "b"]}
Bin(S, T) == {[p |-> o, a |-> x, b |-> y] : o \in {"and", "or"}, x \in S, y \in T}
Preds == IF Focus = "filter" THEN Atoms \cup Other \cup Bin(Atoms, Atoms) \cup Bin(Other, FewAtoms) \cup Bin(Bin(FewAtoms, FewAtoms), FewAtoms)
         ELSE FewAtoms \cup Other \cup Bin(FewAtoms, FewAtoms)

(* what _DNF.extract_pq_filters accepts: comparisons of a column with a literal, and / or of accepted operands *)
RECURSIVE Pushable(_)
Pushable(p) == CASE p.p = "cmp" -> (p.f # "ne" \/ PushNE)
                 [] p.p \in {"and", "or"} -> Pushable(p.a) /\ Pushable(p.b)
                 [] OTHER -> FALSE
SmallRows == {<<0, x, y, 0>> : x \in {Null, 0, 1, 2, 3}, y \in {Null, 0, 1, 2, 3}}
(* the reader's evaluation of a pushed filter: three-valued, TRUE keeps the row *)
RECURSIVE ReaderTruth(_, _)
ReaderTruth(p, row) ==
    CASE p.p = "cmp" -> LET x == row[ColPos(Cols, p.col)] IN
                        IF x = Null THEN (IF p.f = "ne" /\ NullAwareNE THEN 1 ELSE 2) ELSE B3(CmpInt(p.f, x, p.v))
      [] p.p = "and" -> K3And(ReaderTruth(p.a, row), ReaderTruth(p.b, row))
      [] p.p = "or" -> K3Or(ReaderTruth(p.a, row), ReaderTruth(p.b, row))
PushSoundFor(p) == Pushable(p) => \A r \in SmallRows : (ReaderTruth(p, r) = 1) = Keep(p, r, Cols, 1, "numpy")

(* ------------------------------------------------------------ layouts *)
(* a file holds the index labels lo..hi; the sequence is the order of the file names *)
Ranges == {<<0, 2>>, <<3, 5>>, <<6, 8>>, <<2, 4>>, <<5, 6>>, <<9, 9>>}
SeqsOf(S, n) == {s \in [1..n -> S] : \A i, j \in 1..n : i # j => s[i] # s[j]}
Layouts == IF Focus = "layout" THEN SeqsOf(Ranges, 1) \cup SeqsOf(Ranges, 2) \cup SeqsOf(Ranges, 3)
           ELSE IF Focus = "filter" THEN {<<<<0, 2>>, <<3, 5>>, <<6, 8>>>>}
           ELSE {<<<<0, 2>>, <<3, 5>>, <<6, 8>>>>, <<<<6, 8>>, <<0, 2>>, <<3, 5>>>>, <<<<0, 2>>, <<2, 4>>, <<5, 6>>, <<9, 9>>>>, <<<<3, 5>>, <<0, 2>>>>, <<<<0, 2>>, <<3, 5>>, <<6, 8>>, <<9, 9>>>>,
                 <<<<0, 2>>>>, <<<<2, 4>>, <<3, 5>>, <<6, 8>>>>}

Leq2(x, y) == x[1] < y[1] \/ (x[1] = y[1] /\ x[2] <= y[2])
(* the permutation that sorts the files by (min, max): order[i] = position (in name order) of the i-th file handed out *)
SortPerm(L) == CHOOSE f \in [1..Len(L) -> 1..Len(L)] : /\ \A i, j \in 1..Len(L) : i # j => f[i] # f[j]
                                                       /\ \A i \in 1..(Len(L) - 1) : Leq2(L[f[i]], L[f[i + 1]])
Sorted(L) == [i \in 1..Len(L) |-> L[SortPerm(L)[i]]]
DivKnown(L) == IF DivRule = "sorted-pairs" THEN TRUE           \* sorting by (min, max) always yields a monotonic sequence: the test in the code is vacuous
               ELSE \A i \in 1..(Len(L) - 1) : Sorted(L)[i][2] <= Sorted(L)[i + 1][1]
Divs(L) == [i \in 1..(Len(L) + 1) |-> IF i <= Len(L) THEN Sorted(L)[i][1] ELSE Sorted(L)[Len(L)][2]]
DivTruthfulFor(L) == DivKnown(L) => /\ \A i \in 1..Len(L) : Divs(L)[i] <= Sorted(L)[i][1] /\ Sorted(L)[i][2] <= Divs(L)[i + 1]
                                    /\ \A i \in 1..Len(L) : Divs(L)[i] <= Divs(L)[i + 1]

(* fusing `step` consecutive partitions: FusedIO._divisions *)
Buckets(n, step) == [b \in 1..((n + step - 1) \div step) |-> [j \in 1..(IF b * step <= n THEN step ELSE n - (b - 1) * step) |-> (b - 1) * step + j]]
FusedDivs(d, step) == LET n == Len(d) - 1  B == Buckets(n, step) IN
                      [i \in 1..(Len(B) + 1) |-> IF i <= Len(B) THEN d[B[i][1]]
                                                 ELSE IF FusedLast = "index" THEN B[Len(B)][Len(B[Len(B)])] - 1      \* partition ids count from 0 in the code
                                                 ELSE d[n + 1]]
FusedDivOKFor(L) == \A step \in 1..Len(L) : LET fd == FusedDivs(Divs(L), step) IN fd[1] = Divs(L)[1] /\ fd[Len(fd)] = Divs(L)[Len(L) + 1]

(* ------------------------------------------------------------ the case space *)
Readers == {[fs |-> f, calcdiv |-> c, srg |-> s] : f \in {"fsspec", "arrow"}, c \in BOOLEAN, s \in {"infer", "true"}} \ {[fs |-> "arrow", calcdiv |-> c, srg |-> "true"] : c \in BOOLEAN}
UFilters == {<<>>, <<<<[col |-> "a", f |-> "gt", v |-> 0]>>>>, <<<<[col |-> "b", f |-> "ne", v |-> 1]>>>>, <<<<[col |-> "a", f |-> "le", v |-> 2], [col |-> "b", f |-> "ge", v |-> 1]>>>>,
             <<<<[col |-> "a", f |-> "eq", v |-> 1]>>, <<[col |-> "b", f |-> "lt", v |-> 1]>>>>, <<<<[col |-> "ix", f |-> "ge", v |-> 3]>>>>}
Projs == {<<>>, <<"a">>, <<"b", "a">>, <<"k">>}
PartSels == {<<>>, <<0>>, <<1>>, <<0, 2>>}
Terms == {"frame", "len", "col"}
IdxNames == {"ix", ""}
RowGroups == {1, 2}
Writers == {"pandas", "dask"}

VARIABLES c, done
vars == <<c, done>>
Blank == [layout |-> <<>>, rg |-> 1, writer |-> "pandas", iname |-> "ix", rd |-> [fs |-> "fsspec", calcdiv |-> FALSE, srg |-> "infer"], pred |-> [p |-> "none"], uf |-> <<>>, proj |-> <<>>,
          parts |-> <<>>, term |-> "frame", stage |-> 0]

FilterCases == {[Blank EXCEPT !.layout = l, !.rd = r, !.pred = p, !.rg = 1] : l \in Layouts, r \in {x \in Readers : x.srg = "infer" /\ ~x.calcdiv}, p \in Preds}
LayoutCases == {[Blank EXCEPT !.layout = l, !.rd = r, !.rg = g, !.term = t] : l \in Layouts, r \in Readers, g \in RowGroups, t \in {"frame", "len"}}

Init == /\ done = (Focus # "mixed")
        /\ c \in (IF Focus = "filter" THEN FilterCases ELSE IF Focus = "layout" THEN LayoutCases ELSE {Blank})
(* mixed: one component after the other (few successors per step) - the behaviours of this machine are the cases (-simulate) *)
Stage == c.stage
Step1 == Stage = 0 /\ \E l \in Layouts, g \in RowGroups : c' = [c EXCEPT !.stage = 1, !.layout = l, !.rg = g]
Step2 == Stage = 1 /\ \E r \in Readers, w \in Writers, n \in IdxNames :
            /\ (w = "pandas" => n = "ix")        \* the unnamed index of a COLLECTION is written under dask's own label; files of other writers carry a named index here
            /\ c' = [c EXCEPT !.stage = 2, !.rd = r, !.writer = w, !.iname = n]
Step3 == Stage = 2 /\ \E p \in Preds \cup {[p |-> "none"]} : c' = [c EXCEPT !.stage = 3, !.pred = p]
Step4 == Stage = 3 /\ \E u \in UFilters, pr \in Projs : c' = [c EXCEPT !.stage = 4, !.uf = u, !.proj = pr]
Step5 == Stage = 4 /\ \E ps \in PartSels, t \in Terms :
            /\ (\A i \in DOMAIN ps : ps[i] < Len(c.layout))
            /\ (t = "col" => c.proj \in {<<>>, <<"b", "a">>})
            /\ c' = [c EXCEPT !.stage = 5, !.parts = ps, !.term = t]
Next == /\ ~done
        /\ Step1 \/ Step2 \/ Step3 \/ Step4 \/ Step5
        /\ done' = (c'.stage = 5)
Spec == Init /\ [][Next]_vars

(* ------------------------------------------------------------ design rules, evaluated in every case *)
PushSound == (c.pred.p # "none") => PushSoundFor(c.pred)
DivTruthful == (c.layout # <<>>) => DivTruthfulFor(c.layout)
FusedDivOK == (c.layout # <<>> /\ DivKnown(c.layout)) => FusedDivOKFor(c.layout)
(* what the planner may answer without reading: only without any filter *)
LenFromStatsAllowed(case) == case.uf = <<>> /\ (case.pred.p = "none" \/ ~Pushable(case.pred))

Emit == done => PrintT("CASE|" \o ToJson([c EXCEPT !.pred = IF c.pred.p = "none" THEN [p |-> "none"] ELSE c.pred] @@ [pushable |-> (c.pred.p # "none" /\ Pushable(c.pred)), divknown |-> DivKnown(c.layout),
                                           divs |-> IF DivKnown(c.layout) THEN Divs(c.layout) ELSE <<>>, order |-> SortPerm(c.layout)]))
=============================================================================

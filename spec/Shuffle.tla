------------------------------- MODULE Shuffle -------------------------------
(***************************************************************************)
(* C12 design-level model: the shuffle planners of ShuffleOps, run stage   *)
(* by stage as a state machine for ALL (method, n_in, n_out, max_branch,   *)
(* selection of output partitions) up to the bounds, and the routing       *)
(* postcondition evaluated on the universal dataset at the end.            *)
(***************************************************************************)
EXTENDS ShuffleOps, Json

CONSTANTS MaxIn,        \* maximal number of input partitions
          MaxGrow,      \* n_out ranges over n_in .. n_in + MaxGrow  (Shuffle._lower shrinks the input first when n_out < n_in)
          Branches      \* values of max_branch

(* selections of output partitions the model explores for n output partitions *)
Selections(n) ==
    {<<x>> : x \in 0..(n - 1)}                                                     \* singles
    \cup ({[y \in 1..(hi - lo + 1) |-> lo + y - 1] : lo \in 0..(n - 1), hi \in 0..(n - 1)} \ {<<>>})   \* contiguous slices (hi < lo gives <<>>)
    \cup {[y \in 1..n |-> n - y]}                                                  \* reversed
    \cup {<<n - 1, 0>>, <<0, 0>>}                                                   \* reordered pair, repeated
    \cup {[y \in 1..((n + 1) \div 2) |-> 2 * (y - 1)]}                             \* every second partition
    \cup {SetToSortSeq({p \in 0..(n - 1) : p % 3 # 1}, <)}                        \* two out of three

Cases ==
    {[method |-> m, nin |-> ni, nout |-> no, mb |-> b, parts |-> [y \in 1..no |-> y - 1], filtered |-> FALSE] :
        m \in {"tasks", "disk"}, ni \in 1..MaxIn, no \in 1..(MaxIn + MaxGrow), b \in Branches}
    \cup {[method |-> m, nin |-> ni, nout |-> no, mb |-> b, parts |-> s, filtered |-> TRUE] :
        m \in {"tasks", "disk"}, ni \in 1..MaxIn, no \in 1..(MaxIn + MaxGrow), b \in Branches, s \in Selections(MaxIn + MaxGrow)}
CasesOK == {c \in Cases : /\ c.nout >= c.nin /\ c.nout <= c.nin + MaxGrow
                          /\ \A x \in SeqRange(c.parts) : x < c.nout
                          /\ Len(c.parts) > 0
                          /\ (c.method = "disk" => c.mb = CHOOSE b \in Branches : \A b2 \in Branches : b <= b2)}

VARIABLES case, stage, pairs, verdict
vars == <<case, stage, pairs, verdict>>

StagedCase(c) == c.method = "tasks" /\ IsStaged(c.nin, c.mb, c.parts)
NStages(c) == Stages(c.nin, c.mb)

Init == /\ case \in CasesOK /\ stage = 0 /\ pairs = {} /\ verdict = "running"

(* one stage of the staged task shuffle = one layer of tasks *)
BuildStage == /\ verdict = "running" /\ StagedCase(case) /\ stage < NStages(case)
              /\ pairs' = pairs \cup StagePairs(case.nin, case.nout, case.parts, case.filtered,
                                                NStages(case), NSplits(case.nin, NStages(case)), stage)
              /\ stage' = stage + 1 /\ UNCHANGED <<case, verdict>>

Regroup == /\ verdict = "running" /\ StagedCase(case) /\ stage = NStages(case) /\ case.nout # case.nin
           /\ pairs' = pairs \cup RegroupPairs(case.nin, case.nout, case.parts, NStages(case))
           /\ stage' = stage + 1 /\ UNCHANGED <<case, verdict>>

Finish == /\ verdict = "running"
          /\ \/ ~StagedCase(case)
             \/ (stage = NStages(case) /\ case.nout = case.nin)
             \/ stage = NStages(case) + 1
          /\ LET g == IF StagedCase(case) THEN PlanOf(pairs)
                      ELSE IF case.method = "disk" THEN DiskPlan(case.nin, case.nout, case.parts)
                      ELSE SimplePlan(case.nin, case.nout, case.parts, case.filtered)
             IN verdict' = ShuffleVerdict(g, case.nin, case.parts, UniInput(case.nin, case.nout))
          /\ UNCHANGED <<case, stage, pairs>>

Next == BuildStage \/ Regroup \/ Finish
Spec == Init /\ [][Next]_vars

TypeOK == verdict \in {"running", "ok", "Closed", "Evaluates", "Routed"}
(* the incremental construction agrees with the functional transcription used for trace comparison *)
SameAsFunctional == (verdict # "running" /\ StagedCase(case)) =>
                        PlanOf(pairs) = TaskPlan(case.nin, case.nout, case.mb, case.parts, case.filtered)
StagingSound == StagedCase(case) => Pow(NSplits(case.nin, NStages(case)), NStages(case)) >= case.nin
Report == (verdict \notin {"running", "ok"}) => PrintT("DESIGN|" \o verdict \o "|" \o ToJson(case))
EmitCases(file) == ndJsonSerialize(file, SetToSeq(CasesOK))
=============================================================================

------------------------------ MODULE LruTrace ------------------------------
(***************************************************************************)
(* Conformance of the bounded caches with the LRU of spec/Hist.tla.        *)
(* One trace = the lru_get / lru_set events one cache object (dask_expr    *)
(* _util.LRU: divisions_lru, mem_usages_lru, _BackendData._division_info)  *)
(* emitted during one session, in order:                                   *)
(*   [op |-> "set", key, size (after), cap, evicted (0: none)]             *)
(*   [op |-> "get", key, size]        (only successful look-ups are seen)  *)
(* The model state is the sequence of keys, least recently used first,     *)
(* with Hist!Put / Hist!Touch:  a set at capacity evicts the head (even    *)
(* when it overwrites; an overwritten key keeps its position), a get moves *)
(* the key to the end and needs it there.                                  *)
(***************************************************************************)
EXTENDS Naturals, Sequences, FiniteSets, TLC, Json, IOUtils, SequencesExt

T == ndJsonDeserialize(IOEnv.TRACE_FILE)

Put(l, k, cap) == LET base == IF Len(l) >= cap THEN Tail(l) ELSE l IN
                  IF k \in {base[i] : i \in DOMAIN base} THEN base ELSE base \o <<k>>      \* overwriting keeps the key's position
Touch(l, k) == SelectSeq(l, LAMBDA x : x # k) \o <<k>>
Has(l, k) == k \in {l[i] : i \in DOMAIN l}

RECURSIVE Walk(_, _, _)
Walk(evs, i, l) ==
    IF i > Len(evs) THEN "ok"
    ELSE LET e == evs[i] IN
         IF e.op = "get" THEN
              IF ~Has(l, e.key) THEN "GetOfAbsentKey"
              ELSE IF e.size # Len(l) THEN "SizeOnGet"
              ELSE Walk(evs, i + 1, Touch(l, e.key))
         ELSE LET expEv == IF Len(l) >= e.cap THEN Head(l) ELSE 0
                  l2 == Put(l, e.key, e.cap) IN
              IF e.evicted # expEv THEN "EvictsLeastRecentlyUsed"
              ELSE IF e.size # Len(l2) THEN "SizeOnSet"
              ELSE IF Len(l2) > e.cap THEN "Bounded"
              ELSE Walk(evs, i + 1, l2)

Verdict(t) == Walk(t.events, 1, <<>>)

VARIABLES n, bad
Init == n = 1 /\ bad = 0
Next == /\ n <= Len(T)
        /\ LET v == Verdict(T[n]) IN
             /\ (v # "ok") => PrintT("REJECT|" \o ToString(T[n].tid) \o "|" \o v)
             /\ bad' = bad + (IF v = "ok" THEN 0 ELSE 1)
        /\ n' = n + 1
AllConsumed == TLCGet("stats").diameter = Len(T) + 1
=============================================================================

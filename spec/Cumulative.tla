------------------------------ MODULE Cumulative ------------------------------
(***************************************************************************)
(* Every partitioning of every value sequence up to the bounds, as states; *)
(* operators and the statement of the property are in spec/CumOps.tla.     *)
(***************************************************************************)
EXTENDS CumOps
CONSTANTS MaxParts, MaxLen, Vals

VARIABLES parts
SeqsUpTo(n) == UNION {[1..k -> Vals \cup {Null}] : k \in 0..n}
Init == parts \in UNION {[1..p -> SeqsUpTo(MaxLen)] : p \in 1..MaxParts}
Next == UNCHANGED parts
Spec == Init /\ [][Next]_parts

MeaningKept == Out(parts) = Cum(FlattenSeq(parts))
Emit == PrintT("CUM|" \o ToJson([parts |-> parts, out |-> [i \in DOMAIN parts |-> OutPart(parts, i)]]))
=============================================================================

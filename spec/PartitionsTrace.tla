-------------------------- MODULE PartitionsTrace --------------------------
(***************************************************************************)
(* C11 conformance: one line per (collection, selection).  `full` are the  *)
(* partitions of the fully computed collection (graph execution of the     *)
(* unselected collection), `got` what the selection returned.              *)
(***************************************************************************)
EXTENDS PartitionsOps, Json, IOUtils

T == ndJsonDeserialize(IOEnv.TRACE_FILE)

Verdict(t) ==
    IF t.full_err THEN "ok"                                   \* the unselected collection is not computable: nothing to compare
    ELSE IF t.kind = "sel" THEN
        IF ~SelectionLegal(t.full, t.P) THEN "ok"          \* out-of-range request: nothing to compare
        ELSE IF t.err THEN "NoNewError"
        ELSE IF Len(t.got) = Len(t.P) /\ ~SameParts(t.got, SelectExpected(t.full, t.P), t.ordered) THEN "Commutes"
        (* a multi-file reader may fuse the selected partitions into fewer tasks: then the concatenation decides *)
        ELSE IF ~SameRows(FlattenSeq(t.got), FlattenSeq(SelectExpected(t.full, t.P)), t.ordered) THEN "Commutes"
        ELSE IF t.np # Len(t.P) THEN "Reported"
        ELSE "ok"
    ELSE IF t.kind = "head" THEN
        IF ~HeadLegal(t.full, t.k) THEN "ok"                \* more partitions requested than exist: nothing to compare
        ELSE IF t.err THEN "NoNewError"
        ELSE IF ~t.ordered THEN
            (IF AnyNOf(t.got[1], FlattenSeq(SubSeq(t.full, 1, HeadK(t.full, t.k))), t.n) THEN "ok" ELSE "HeadIsPrefix")
        ELSE IF SameRows(t.got[1], HeadExpected(t.full, t.n, t.k), t.ordered) THEN "ok"
        ELSE IF LongerPrefix(t.got[1], FlattenSeq(t.full), HeadExpected(t.full, t.n, t.k), t.n) THEN "ok"   \* fused reader: first physical partition spans several logical ones
        ELSE IF t.sorted_head /\ SameRows(t.got[1], HeadExpected(t.full, t.n, -1), t.ordered) THEN "ok"   \* head of a sorted frame may look beyond the first partition
        ELSE "HeadIsPrefix"
    ELSE IF t.kind = "tail" THEN
        IF t.err THEN "NoNewError"
        ELSE IF ~t.ordered THEN
            (IF AnyNOf(t.got[1], t.full[Len(t.full)], t.n) THEN "ok" ELSE "TailIsSuffix")
        ELSE IF SameRows(t.got[1], TailExpected(t.full, t.n), t.ordered) THEN "ok"
        ELSE IF LongerSuffix(t.got[1], FlattenSeq(t.full), TailExpected(t.full, t.n), t.n) THEN "ok"
        ELSE IF t.sorted_head /\ SameRows(t.got[1], TailRows(FlattenSeq(t.full), t.n), t.ordered) THEN "ok"
        ELSE "TailIsSuffix"
    ELSE "UnknownKind"

VARIABLES n, bad
Init == n = 1 /\ bad = 0
Next == /\ n <= Len(T)
        /\ LET v == Verdict(T[n]) IN
             /\ (v # "ok") => PrintT("REJECT|" \o ToString(T[n].tid) \o "|" \o v)
             /\ bad' = bad + (IF v = "ok" THEN 0 ELSE 1)
        /\ n' = n + 1
AllConsumed == TLCGet("stats").diameter = Len(T) + 1
=============================================================================

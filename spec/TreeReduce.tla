----------------------------- MODULE TreeReduce -----------------------------
(***************************************************************************)
(* The tree reduction planner as a (trivial) state machine: one state per  *)
(* (n, split_every); operators and the statement of the properties are in  *)
(* spec/TreeOps.tla.                                                       *)
(***************************************************************************)
EXTENDS TreeOps
CONSTANTS Splits

VARIABLES n, s
Init == n \in 1..MaxN /\ s \in Splits
Next == UNCHANGED <<n, s>>
Spec == Init /\ [][Next]_<<n, s>>

InOrder == Leaves(n, s, Root) = [k \in 1..n |-> k - 1]            \* implies ExactlyOnce
FanIn == \A node \in Nodes(n, s) : LET k == Len(Operands(n, s, node)) IN k >= 1 /\ (s # 0 => k <= s)
Depth == s # 0 => LET d == Levels(n, s, 0) IN Pow(s, d + 1) >= n /\ (d > 0 => Pow(s, d) < n)
NoCombineWhenOff == s = 0 => Levels(n, s, 0) = 0 /\ Len(Operands(n, s, Root)) = n

ToRec(node) == [j |-> node[1], i |-> node[2]]
Emit == PrintT("TREE|" \o ToJson([n |-> n, s |-> s, layer |-> SetToSeq({[node |-> ToRec(nd), ops |-> [k \in DOMAIN Operands(n, s, nd) |-> ToRec(Operands(n, s, nd)[k])]] : nd \in Nodes(n, s)})]))
=============================================================================

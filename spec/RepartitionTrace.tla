------------------------- MODULE RepartitionTrace -------------------------
(***************************************************************************)
(* C13 conformance: every line of the trace file is what the REAL code did *)
(* for one case (the plan RepartitionDivisions/ToFewer/ToMore/Size._layer  *)
(* produced, the partitions it computed, the divisions it reported).       *)
(* The specification decides, per trace:                                   *)
(*   Replayed      the harness replayed the case it was given              *)
(*   Rejects       error <=> the request cannot be satisfied               *)
(*   Closed/Evaluates/RowsPreserved/Honoured  on PlanSem(real plan) over   *)
(*                 the universal dataset (ALL frames with these divisions) *)
(*   PlanBinding   the partitions the real graph computed are the ones     *)
(*                 PlanSem predicts for the real plan (binds PlanSem)      *)
(*   Reported      reported divisions / npartitions are the requested ones *)
(* and flags a divergence when the real plan differs from the transcribed  *)
(* planner (reported, not a violation).                                    *)
(***************************************************************************)
EXTENDS RepartitionOps, Json, IOUtils

T == ndJsonDeserialize(IOEnv.TRACE_FILE)

Rows(x) == x            \* rows arrive as [[idx, rid], ...]

DivTrace(t) ==
    LET iv == SeqRange(t.iv)
        inp == UniInput(t.a, iv)
        wantReject == RangeError(t.a, t.b, t.force)
    IN
    IF t.inputs # inp THEN "Replayed"
    ELSE IF t.rejected # wantReject THEN "Rejects"
    ELSE IF t.rejected THEN "ok"
    ELSE LET v == DivVerdict(t.plan, TRUE, t.a, t.b, iv) IN
         IF v # "ok" THEN v
         ELSE IF t.crashed THEN "NoNewError"
         ELSE IF Vals(DivOuts(t.plan, t.b, inp)) # t.outs THEN "PlanBinding"
         ELSE IF t.div # t.b \/ t.np # Len(t.b) - 1 THEN "Reported"
         ELSE "ok"

(* Repartition._lower: equal divisions -> the input itself (identity plan), otherwise the divisions planner *)
IdentityPlan(nparts) == [key \in {Key("o", j) : j \in 0..(nparts - 1)} |->
                           [op |-> "alias", src |-> Key("i", CHOOSE j \in 0..(nparts - 1) : Key("o", j) = key)]]
DivDiverges(t) == ~t.rejected /\
    IF t.a = t.b THEN t.plan # IdentityPlan(Len(t.a) - 1)
    ELSE LET p == RDPlan(t.a, t.b, t.force) IN p.pc # "done" \/ p.g # t.plan

CountTrace(t) ==
    LET inp == CountInput(t.lens) IN
    IF t.inputs # inp THEN "Replayed"
    ELSE LET v == CountVerdict(t.plan, t.nin, t.nout, t.lens) IN
         IF v # "ok" THEN v
         ELSE IF t.crashed THEN "NoNewError"
         ELSE IF Vals(RunOuts(t.plan, OutKeys(t.nout), inp)) # t.outs THEN "PlanBinding"
         ELSE IF t.np # t.nout THEN "Reported"
         ELSE "ok"

CountDiverges(t) == t.plan # (IF t.nin > t.nout THEN FewerPlan(t.nin, t.nout) ELSE MorePlan(t.nin, t.nout))

(* plans of any other origin (partition_size, freq, npartitions with interpolated divisions): *)
(* only the row-level postconditions, on the inputs the trace carries                        *)
AnyTrace(t) ==
    LET inp == t.inputs
        outs == OutKeys(t.nout)
    IN IF ~Closed(t.plan, inp) THEN "Closed"
       ELSE LET res == RunOuts(t.plan, outs, inp) IN
            IF ~NoErr(res) THEN "Evaluates"
            ELSE IF FlattenSeq(Vals(res)) # FlattenSeq([p \in 1..t.nin |-> inp[Key("i", p - 1)]]) THEN "RowsPreserved"
            ELSE IF t.crashed THEN "NoNewError"
            ELSE IF Vals(res) # t.outs THEN "PlanBinding"
            ELSE IF t.np # t.nout THEN "Reported"
            ELSE "ok"

Verdict(t) == CASE t.kind = "div" -> DivTrace(t)
                [] t.kind = "count" -> CountTrace(t)
                [] OTHER -> AnyTrace(t)
Diverges(t) == CASE t.kind = "div" -> DivDiverges(t)
                 [] t.kind = "count" -> CountDiverges(t)
                 [] OTHER -> FALSE

VARIABLES n, bad
Init == n = 1 /\ bad = 0
Next == /\ n <= Len(T)
        /\ LET v == Verdict(T[n]) IN
             /\ (v # "ok") => PrintT("REJECT|" \o ToString(T[n].tid) \o "|" \o v)
             /\ Diverges(T[n]) => PrintT("DIVERGE|" \o ToString(T[n].tid))
             /\ bad' = bad + (IF v = "ok" THEN 0 ELSE 1)
        /\ n' = n + 1
AllConsumed == TLCGet("stats").diameter = Len(T) + 1
=============================================================================

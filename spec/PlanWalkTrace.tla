--------------------------- MODULE PlanWalkTrace ---------------------------
(***************************************************************************)
(* Conformance for C06 / C07 / C09: one line per observed node / graph.    *)
(*  kind "node":  what one plan node reported (npartitions, divisions,     *)
(*     declared schema) and what it computed (per partition: length,       *)
(*     min / max index label, schema).            C06 + C07                *)
(*  kind "lens":  row counts answered from metadata vs counted.    C06     *)
(*  kind "stages": declared schema of the root at every optimizer stage.   *)
(*                                                          C07            *)
(*  kind "graph": the layers of every node of one plan (before the merge). *)
(*                                                          C09            *)
(* The property a line is checked for is given by t.prop (the harness      *)
(* splits the verdicts per property).                                      *)
(***************************************************************************)
EXTENDS PlanWalkOps, Json, IOUtils

T == ndJsonDeserialize(IOEnv.TRACE_FILE)

NodeVerdict(t) ==
    IF t.prop = "C06" THEN (IF t.asserted THEN "ok" ELSE Truthful(t))
    ELSE IF t.meta_rows > 0 THEN "MetaEmpty"          \* the declared schema is an EMPTY object of the right type: consumers use it as the empty partition
    ELSE LET v == FirstMismatch(t.decl, t.pschemas, 1) IN
         IF v # "ok" THEN v
         ELSE IF t.has_result THEN SchemaMatches(t.decl, t.rschema) ELSE "ok"

StagesVerdict(t) ==
    IF \E i \in DOMAIN t.schemas : t.schemas[i] # t.schemas[1] THEN "StageStable" ELSE "ok"

Verdict(t) ==
    CASE t.kind = "node" -> NodeVerdict(t)
      [] t.kind = "lens" -> IF LengthsTruthful(t.pairs) THEN "ok" ELSE "LengthsTruthful"
      [] t.kind = "stages" -> StagesVerdict(t)
      [] t.kind = "graph" -> GraphVerdict(t.graph, t.outs)
      [] OTHER -> "UnknownKind"

VARIABLES n, bad
Init == n = 1 /\ bad = 0
Next == /\ n <= Len(T)
        /\ LET v == Verdict(T[n]) IN
             /\ (v # "ok") => PrintT("REJECT|" \o ToString(T[n].tid) \o "|" \o v)
             /\ bad' = bad + (IF v = "ok" THEN 0 ELSE 1)
        /\ n' = n + 1
AllConsumed == TLCGet("stats").diameter = Len(T) + 1
=============================================================================

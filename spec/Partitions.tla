----------------------------- MODULE Partitions -----------------------------
(***************************************************************************)
(* C11 design-level model of the partition-selection push-down             *)
(* (Partitions._simplify_down, the PartitionsFiltered contract, Head/Tail  *)
(* lowering to Partitions + BlockwiseHead/Tail).                           *)
(*                                                                         *)
(* A plan is a chain of operators over a source with NP partitions; a      *)
(* Partitions(P) node starts on top and is pushed down one operator per    *)
(* step, exactly when the code's rule allows it.  Partition contents are   *)
(* integer terms, so "commutes" is equality of terms.                      *)
(*   kind "pos"   : Blockwise, task i reads input partition i              *)
(*   kind "bcast" : Blockwise with a 1-partition (broadcast) operand       *)
(*   kind "shift" : Blockwise whose task i reads input partition s+i       *)
(*                  (LocSlice/LocList/LocElement after partition pruning)  *)
(*   kind "wide"  : not Blockwise (shuffle, cumulative...) and not         *)
(*                  PartitionsFiltered: the selection stays above it       *)
(*   kind "filt"  : PartitionsFiltered operator (its _partitions operand   *)
(*                  absorbs the selection: staged shuffle, broadcast join) *)
(* The rule under test (RuleFaithful = what the code does: every Blockwise *)
(* is treated as positional; RuleSound = requires positional).             *)
(***************************************************************************)
EXTENDS PartitionsOps, Json

CONSTANTS NP,            \* partitions of the source
          MaxChain,      \* operators above the source
          Faithful       \* TRUE: the rule as coded; FALSE: the rule restricted to positional operators

Kinds == {"pos", "bcast", "shift", "wide", "filt"}
Chains == UNION {[1..m -> Kinds] : m \in 0..MaxChain}
Sels == {<<x>> : x \in 0..(NP - 2)} \cup {<<1, 0>>, <<0, 0>>} \cup {[y \in 1..(NP - 1) |-> y - 1]}

(* number of partitions below operator d of the chain (a "shift" operator prunes the first partition) *)
RECURSIVE NPAt(_, _)
NPAt(chain, d) == IF d = 0 THEN NP ELSE IF chain[d] = "shift" THEN NPAt(chain, d - 1) - 1 ELSE NPAt(chain, d - 1)

(* term of output partition i (0-based) of operator level d, with NO selection anywhere *)
RECURSIVE Full(_, _, _)
Full(chain, d, i) ==
    IF d = 0 THEN i + 1
    ELSE CASE chain[d] = "pos"   -> 7 * Full(chain, d - 1, i) + 1
           [] chain[d] = "bcast" -> 7 * Full(chain, d - 1, i) + 2
           [] chain[d] = "shift" -> 7 * Full(chain, d - 1, i + 1) + 3
           [] chain[d] = "wide"  -> 7 * Full(chain, d - 1, i) + 4 + 1000 * NPAt(chain, d - 1)   \* depends on ALL inputs
           [] chain[d] = "filt"  -> 7 * Full(chain, d - 1, i) + 5 + 1000 * NPAt(chain, d - 1)

(* term of output partition j of the whole plan when the selection P sits directly above level `at` *)
RECURSIVE Sel(_, _, _, _, _)
Sel(chain, d, at, P, j) ==
    IF d = at THEN Full(chain, d, P[j + 1])
    ELSE CASE chain[d] = "pos"   -> 7 * Sel(chain, d - 1, at, P, j) + 1
           [] chain[d] = "bcast" -> 7 * Sel(chain, d - 1, at, P, j) + 2
           [] chain[d] = "shift" -> (* task j of the shifted operator reads input j+1 OF ITS (already selected) INPUT *)
                                    IF j + 1 < Len(P) THEN 7 * Sel(chain, d - 1, at, P, j + 1) + 3 ELSE -1
           [] OTHER -> -2

VARIABLES chain, P, at
vars == <<chain, P, at>>

Init == /\ chain \in Chains /\ P \in Sels /\ at = Len(chain)
        /\ \A x \in SeqRange(P) : x < NPAt(chain, Len(chain))
        /\ NPAt(chain, Len(chain)) >= 1

Pushable(k) == IF Faithful THEN k \in {"pos", "bcast", "shift"} ELSE k \in {"pos", "bcast"}
PushDown == /\ at > 0 /\ Pushable(chain[at]) /\ at' = at - 1 /\ UNCHANGED <<chain, P>>
Absorb == /\ at > 0 /\ chain[at] = "filt" /\ UNCHANGED vars        \* the operator's own _partitions takes P: contract, bound by traces
Next == PushDown \/ Absorb
Spec == Init /\ [][Next]_vars

Commutes == \A j \in 0..(Len(P) - 1) : Sel(chain, Len(chain), at, P, j) = Full(chain, Len(chain), P[j + 1])
Report == ~Commutes => PrintT("DESIGN|Commutes|" \o ToJson([chain |-> chain, P |-> P, at |-> at]))
=============================================================================

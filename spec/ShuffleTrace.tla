--------------------------- MODULE ShuffleTrace ---------------------------
(***************************************************************************)
(* C12 conformance.  Two kinds of trace line:                              *)
(*  kind = "plan":  what the real SimpleShuffle / TaskShuffle / DiskShuffle *)
(*     node did for one case: its layer (abstracted to the plan algebra),  *)
(*     its input partitions (with the routing number the real            *)
(*     AssignPartitioningIndex computed), its output partitions.          *)
(*       Covering     every (input partition, routing number) occurs      *)
(*       Closed / Evaluates / Routed   on the meaning of the REAL plan     *)
(*       NoNewError   the real execution must not fail                     *)
(*       PlanBinding  real outputs == meaning of the real plan             *)
(*       DIVERGE      real plan differs from the transcribed planner       *)
(*  kind = "coloc":  the partition number every key value received in     *)
(*     several frames whose key has different dtypes / placements:         *)
(*       Permutation  every input row exactly once                         *)
(*       Colocated    equal keys -> one partition, within a frame          *)
(*       Consistent   equal keys -> the same partition number across frames *)
(***************************************************************************)
EXTENDS ShuffleOps, Json, IOUtils

T == ndJsonDeserialize(IOEnv.TRACE_FILE)

Covering(t) == \A i \in 0..(t.nin - 1) : \A p \in 0..(t.nout - 1) :
                  \E n \in DOMAIN t.inputs[K1("i", i)] : t.inputs[K1("i", i)][n][3] = p

PlanVerdict(t) ==
    IF t.planner_crashed THEN "PlannerCrash"
    ELSE IF ~Covering(t) THEN "NotCovering"
    ELSE LET v == ShuffleVerdict(t.plan, t.nin, t.parts, t.inputs) IN
         IF v # "ok" THEN v
         ELSE IF t.crashed THEN "NoNewError"
         ELSE IF OutRids(t.plan, t.parts, t.inputs) # t.outs THEN "PlanBinding"
         ELSE "ok"

PlanDiverges(t) ==
    ~t.planner_crashed /\
    t.plan # (IF t.method = "disk" THEN DiskPlan(t.nin, t.nout, t.parts)
              ELSE TaskPlan(t.nin, t.nout, t.mb, t.parts, t.filtered))

(* coloc: t.frames = sequence of [n_in_rows, rows |-> <<key, rid, part>>...] ; key 99 = NULL *)
ColocVerdict(t) ==
    LET rows(f) == t.frames[f].rows IN
    IF \E f \in DOMAIN t.frames :
          \/ Len(rows(f)) # t.frames[f].nrows
          \/ Cardinality({rows(f)[n][2] : n \in DOMAIN rows(f)}) # t.frames[f].nrows
       THEN "Permutation"
    ELSE IF \E f \in DOMAIN t.frames : \E m, n \in DOMAIN rows(f) :
              rows(f)[m][1] = rows(f)[n][1] /\ rows(f)[m][3] # rows(f)[n][3]
       THEN "Colocated"
    ELSE IF \E f, h \in DOMAIN t.frames : \E m \in DOMAIN rows(f), n \in DOMAIN rows(h) :
              rows(f)[m][1] = rows(h)[n][1] /\ rows(f)[m][3] # rows(h)[n][3]
       THEN "Consistent"
    ELSE IF \E f \in DOMAIN t.frames : \E n \in DOMAIN rows(f) : rows(f)[n][3] \notin 0..(t.nout - 1)
       THEN "Range"
    ELSE "ok"

Verdict(t) == IF t.kind = "plan" THEN PlanVerdict(t) ELSE ColocVerdict(t)
Diverges(t) == t.kind = "plan" /\ PlanDiverges(t)

VARIABLES n, bad
Init == n = 1 /\ bad = 0
Next == /\ n <= Len(T)
        /\ LET v == Verdict(T[n]) IN
             /\ (v # "ok") => PrintT("REJECT|" \o ToString(T[n].tid) \o "|" \o v)
             /\ Diverges(T[n]) => PrintT("DIVERGE|" \o ToString(T[n].tid))
             /\ bad' = bad + (IF v = "ok" THEN 0 ELSE 1)
        /\ n' = n + 1
AllConsumed == TLCGet("stats").diameter = Len(T) + 1
=============================================================================

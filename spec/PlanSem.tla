----------------------------- MODULE PlanSem -----------------------------
(***************************************************************************)
(* Meaning of an abstract task graph ("plan") on partitioned abstract rows. *)
(*                                                                         *)
(* A plan is a function  key -> task ; a key is a short string.  A task is  *)
(* a record whose field "op" selects one of the helper functions dask-expr *)
(* puts into its hand-written layers.  Each clause below is the documented *)
(* contract of that helper (they are ASSUMPTIONS about dask.dataframe,     *)
(* bound by comparing Run with per-partition outputs of the real graph).   *)
(*                                                                         *)
(* A row is a sequence of naturals:  r[1] = index label, r[2] = unique row *)
(* id, r[3] = routing number (target partition) where a shuffle needs one. *)
(***************************************************************************)
EXTENDS Naturals, Integers, Sequences, FiniteSets, TLC

ERR == [ok |-> FALSE, v |-> <<>>]      \* value of a task that cannot be evaluated
Ok(v) == [ok |-> TRUE, v |-> v]
IsErr(x) == ~x.ok

Idx(r) == r[1]
Rid(r) == r[2]

RECURSIVE FlattenSeq(_)
FlattenSeq(ss) == IF ss = <<>> THEN <<>> ELSE Head(ss) \o FlattenSeq(Tail(ss))

RECURSIVE Pow(_, _)
Pow(b, e) == IF e = 0 THEN 1 ELSE b * Pow(b, e - 1)

SeqRange(s) == {s[i] : i \in DOMAIN s}

(* methods.boundary_slice(df, lo, hi, right_boundary): rows with lo <= idx <= hi, and idx = hi only when rc *)
BoundarySlice(rows, lo, hi, rc) ==
    SelectSeq(rows, LAMBDA r : /\ Idx(r) >= lo
                               /\ (Idx(r) < hi \/ (rc /\ Idx(r) = hi)))

(* dask.dataframe.core.split_evenly(df, n): np.linspace(0, len, n+1, dtype=int) positional cuts *)
SplitBound(len, n, i) == (i * len) \div n
SplitPart(rows, n, i) ==            \* i is 0-based
    SubSeq(rows, SplitBound(Len(rows), n, i) + 1, SplitBound(Len(rows), n, i + 1))

(* head / tail *)
HeadRows(rows, n) == SubSeq(rows, 1, IF n < Len(rows) THEN n ELSE Len(rows))
TailRows(rows, n) == SubSeq(rows, IF Len(rows) > n THEN Len(rows) - n + 1 ELSE 1, Len(rows))

(* shuffle_group(df, col, stage, k, npartitions, ignore_index, nfinal): digit of the routing number *)
Digit(p, stage, k, nmod) == ((p % nmod) \div Pow(k, stage)) % k

RECURSIVE Run(_, _, _, _)
(* g: plan, k: key, inp: key -> rows for source keys, fuel: recursion bound (cycle guard).        *)
(* The result is Ok(value) or ERR; value is a row sequence, or a dict of row sequences for split/group. *)
Run(g, k, inp, fuel) ==
  IF k \in DOMAIN inp THEN Ok(inp[k])
  ELSE IF k \notin DOMAIN g \/ fuel = 0 THEN ERR
  ELSE LET t == g[k] IN
    IF t.op = "concat" THEN
        LET vs == [i \in DOMAIN t.srcs |-> Run(g, t.srcs[i], inp, fuel - 1)] IN
        IF \E i \in DOMAIN vs : IsErr(vs[i]) THEN ERR ELSE Ok(FlattenSeq([i \in DOMAIN vs |-> vs[i].v]))
    ELSE IF t.op = "empty" THEN Ok(<<>>)
    ELSE IF t.op \notin {"alias", "slice", "split", "getitem", "head", "tail", "group", "groupmod"} THEN ERR
    ELSE LET x == Run(g, t.src, inp, fuel - 1) IN
      IF IsErr(x) THEN ERR ELSE LET v == x.v IN
      CASE t.op = "alias"  -> x
        [] t.op = "slice"  -> Ok(BoundarySlice(v, t.lo, t.hi, t.rc))
        [] t.op = "split"  -> Ok([i \in 0..(t.n - 1) |-> SplitPart(v, t.n, i)])    \* dict of n pieces keyed 0..n-1
        [] t.op = "getitem"-> IF t.i \in DOMAIN v THEN Ok(v[t.i]) ELSE ERR
        [] t.op = "head"   -> Ok(HeadRows(v, t.n))
        [] t.op = "tail"   -> Ok(TailRows(v, t.n))
        [] t.op = "group"  -> (* shuffle_group: dict digit -> rows *)
                              Ok([d \in 0..(t.k - 1) |-> SelectSeq(v, LAMBDA r : Digit(r[3], t.stage, t.k, t.nmod) = d)])
        [] t.op = "groupmod" -> Ok([d \in 0..(t.n - 1) |-> SelectSeq(v, LAMBDA r : r[3] % t.n = d)])

Fuel(g) == Cardinality(DOMAIN g) + 2

(* outputs as a sequence of Ok/ERR records *)
RunOuts(g, outs, inp) == [j \in DOMAIN outs |-> Run(g, outs[j], inp, Fuel(g))]
NoErr(outs) == \A j \in DOMAIN outs : outs[j].ok
Vals(outs) == [j \in DOMAIN outs |-> outs[j].v]

(* every key a task refers to is either a source or defined *)
Refs(t) == CASE t.op \in {"alias", "slice", "split", "getitem", "head", "tail", "group", "groupmod"} -> {t.src}
             [] t.op = "concat" -> SeqRange(t.srcs)
             [] OTHER -> {}
Closed(g, inp) == \A k \in DOMAIN g : Refs(g[k]) \subseteq (DOMAIN g \cup DOMAIN inp)

=============================================================================

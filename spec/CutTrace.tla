------------------------------- MODULE CutTrace -------------------------------
(***************************************************************************)
(* C17 conformance: one line per (query, cut point, cut kind): the result, *)
(* declared schema and divisions of the uncut query and of the query       *)
(* continued on the re-imported collection, plus the task graph of the cut *)
(* plan (imported keys next to new keys).                                  *)
(***************************************************************************)
EXTENDS Rel, PlanWalkOps, Json, IOUtils

T == ndJsonDeserialize(IOEnv.TRACE_FILE)

Verdict(t) ==
    IF ~t.uncut.ok THEN "ok"                                   \* nothing to compare
    ELSE IF t.refusal_ok /\ ~t.cut.ok /\ t.cut.err = "ValueError" THEN "ok"      \* merge_asof on an import without divisions refuses ("input must be sorted!")
    ELSE IF t.cut_failed THEN "CutFailed"
    ELSE LET ord == IF t.select THEN OrdDefined(t.head) ELSE t.ord      \* a selection on the import is compared under the head's own rules
             idx == IF t.select THEN IdxDefined(t.head) ELSE t.idx
             v == Accept(t.uncut, t.cut, ord, idx) IN
         IF v # "ok" THEN v
         ELSE IF t.schema_uncut # t.schema_cut THEN "SameSchema"
         \* after a cut that documents the loss of divisions the rest is planned for unknown divisions (other alignment, other
         \* quantile sample in a later set_index): the divisions it arrives at need not be those of the uncut plan
         \* nor when the cut collection contains a sort whose divisions are quantiles of its input and the rest filters rows (uncut, the
         \* filter is pushed below the sort: other sample, other - equally valid - divisions)
         \* the uncut query has the divisions it DECLARES before optimization (div_uncut) and the divisions it RUNS with (div_uncut_run, those
         \* of its optimized plan); they differ when the optimizer moves a row filter below a quantile-planned set_index / sort. A cut
         \* materializes the optimized head, so the cut query may carry either - but nothing else
         ELSE IF t.div_known_uncut /\ t.div_known_cut /\ ~t.div_loss_documented /\ ~t.div_sample_may_differ /\ t.div_uncut # t.div_cut
                 /\ ~(t.div_known_uncut_run /\ t.div_uncut_run = t.div_cut) THEN "SameDivisions"
         ELSE IF t.div_known_uncut /\ ~t.div_known_cut /\ ~t.div_loss_documented THEN "DivisionsLost"
         ELSE IF t.has_graph /\ GraphVerdict(t.graph, t.outs) # "ok" THEN "Graph:" \o GraphVerdict(t.graph, t.outs)
         ELSE "ok"

VARIABLES n, bad
Init == n = 1 /\ bad = 0
Next == /\ n <= Len(T)
        /\ LET v == Verdict(T[n]) IN
             /\ (v # "ok") => PrintT("REJECT|" \o ToString(T[n].tid) \o "|" \o v)
             /\ bad' = bad + (IF v = "ok" THEN 0 ELSE 1)
        /\ n' = n + 1
AllConsumed == TLCGet("stats").diameter = Len(T) + 1
=============================================================================

------------------------------- MODULE Session -------------------------------
(***************************************************************************)
(* C15 / C16 - planner state outside the expressions: session histories    *)
(* and shipping a collection to another process.                           *)
(*                                                                         *)
(* Process-wide state of dask-expr that a result could depend on:          *)
(*   lru    divisions_lru (capacity Cap): sort / set_index plans store the  *)
(*          quantile divisions they computed, keyed by the fields the code *)
(*          puts in the key; an optimized set_index plan (_SetIndexPost)   *)
(*          READS its divisions back from this cache                       *)
(*   inst   one expression object per name (weak)                          *)
(*   disk   dataset path -> version; readers cache what they planned       *)
(* A query is identified by q \in Queries; its key is KeyOf[q] (several    *)
(* queries may share a key when the key misses a field - `KeyComplete`).   *)
(* Actions: Optimize(q), Discard(q) + GC, Observe(q) (divisions / result   *)
(* of the optimized plan), Pickle / LoadHere / LoadInFresh, Rewrite(path). *)
(* Faithful = TRUE models the code: Observe on an optimized sort plan      *)
(* whose cache entry is gone fails (assert key in divisions_lru).          *)
(***************************************************************************)
EXTENDS Naturals, Integers, Sequences, FiniteSets, TLC, SequencesExt

CONSTANTS Queries,       \* sort-like queries, e.g. 1..4
          Cap,           \* capacity of the LRU (10 in the code)
          KeyComplete,   \* TRUE: the cache key covers everything the value depends on
          Faithful       \* TRUE: reading a missing entry fails (the code); FALSE: recompute on a miss

(* the value a plan needs: depends on the query; with an incomplete key two queries collide *)
Truth(q) == q
KeyOf(q) == IF KeyComplete THEN q ELSE (q + 1) \div 2          \* queries 1,2 share a key; 3,4 share a key

VARIABLES lru,        \* sequence of <<key, value>>, least recently used first
          planned,    \* queries whose optimized plan object the user holds (in any process)
          proc,       \* 0 = the originating process, 1 = a fresh one
          obs         \* last observation: [q, val]  (val = -1: failure)
vars == <<lru, planned, proc, obs>>

Keys(l) == {l[i][1] : i \in DOMAIN l}
Lookup(l, k) == (CHOOSE i \in DOMAIN l : l[i][1] = k)
Put(l, k, v) == Append(IF Len(l) >= Cap THEN Tail(l) ELSE l, <<k, v>>)        \* evicts the oldest even on overwrite, like the code
Touch(l, k) == LET i == Lookup(l, k) IN SubSeq(l, 1, i - 1) \o SubSeq(l, i + 1, Len(l)) \o <<l[i]>>

Init == lru = <<>> /\ planned = {} /\ proc = 0 /\ obs = [q |-> 0, val |-> 0]

(* planning a sort: _get_divisions - hit or compute-and-store *)
Optimize(q) == /\ planned' = planned \cup {q}
               /\ lru' = IF KeyOf(q) \in Keys(lru) THEN Touch(lru, KeyOf(q)) ELSE Put(lru, KeyOf(q), Truth(q))
               /\ UNCHANGED <<proc, obs>>
(* asking the optimized plan for its divisions / result: _SetIndexPost._divisions *)
Observe(q) == /\ q \in planned
              /\ IF KeyOf(q) \in Keys(lru)
                 THEN /\ obs' = [q |-> q, val |-> lru[Lookup(lru, KeyOf(q))][2]] /\ lru' = Touch(lru, KeyOf(q))
                 ELSE IF Faithful THEN /\ obs' = [q |-> q, val |-> -1] /\ UNCHANGED lru          \* AssertionError
                 ELSE /\ obs' = [q |-> q, val |-> Truth(q)] /\ lru' = Put(lru, KeyOf(q), Truth(q))
              /\ UNCHANGED <<planned, proc>>
(* the user keeps the (pickled) plan but the process is new: all process-wide state is empty *)
LoadInFresh == /\ proc = 0 /\ proc' = 1 /\ lru' = <<>> /\ UNCHANGED <<planned, obs>>
Next == (\E q \in Queries : Optimize(q) \/ Observe(q)) \/ LoadInFresh
Spec == Init /\ [][Next]_vars

(* C15 / C16: whatever happened before, an observation equals what the query yields alone in a fresh process *)
Transparent == obs.q # 0 => obs.val = Truth(obs.q)
KeyCovers == \A i \in DOMAIN lru : \A q \in Queries : KeyOf(q) = lru[i][1] => (KeyComplete => lru[i][2] = Truth(q))
Bounded == Len(lru) <= Cap
=============================================================================

--------------------------------- MODULE Cut ---------------------------------
(***************************************************************************)
(* C17 - materialization boundaries are transparent.                       *)
(*                                                                         *)
(* A query is a chain of operators over a source; Cut(d, kind) replaces    *)
(* the first d operators (the "head") by an IMPORT node that carries what  *)
(* the real re-import rebuilds:                                            *)
(*   persist  -> FromGraph(meta, divisions, keys) over the lowered head    *)
(*   delayed  -> FromDelayed over one delayed object per partition, with   *)
(*               meta / divisions as passed (divisions unknown if omitted) *)
(*   legacy   -> FromGraph(graph, meta, divisions, keys, prefix)           *)
(* The remaining operators (the "tail") are then applied to the import.    *)
(* Partition contents are integer terms, so "same final result" is term    *)
(* equality per partition.  The import node is an IO node: the optimizer   *)
(* cannot push projections / filters into it, but a partition SELECTION in *)
(* the tail is absorbed by it (FromDelayed is partition-filterable) - its  *)
(* name must then depend on the selection.                                 *)
(***************************************************************************)
EXTENDS Naturals, Integers, Sequences, FiniteSets, TLC, SequencesExt, Json

CONSTANTS NP,            \* partitions of the source
          MaxChain,      \* operators in the query
          NameCoversSelection   \* TRUE: the import node's name includes its _partitions operand (as in the code)

Kinds == {"pos", "wide", "sel"}            \* partition-wise, not partition-wise (keeps the count), select partitions <<1, 0>>
CutKinds == {"persist", "delayed", "delayed_nodiv", "legacy"}
Chains == UNION {[1..m -> Kinds] : m \in 1..MaxChain}
SelP == <<1, 0>>

(* number of partitions and known-divisions flag after the first d operators of the UNCUT query *)
RECURSIVE NPAt(_, _)
NPAt(ch, d) == IF d = 0 THEN NP ELSE IF ch[d] = "sel" THEN Len(SelP) ELSE NPAt(ch, d - 1)
RECURSIVE KnownAt(_, _)
KnownAt(ch, d) == IF d = 0 THEN TRUE ELSE IF ch[d] = "wide" THEN FALSE ELSE KnownAt(ch, d - 1)   \* a shuffle-like op loses divisions

(* contents of partition i after d operators, uncut *)
RECURSIVE Val(_, _, _)
Val(ch, d, i) ==
    IF d = 0 THEN i + 1
    ELSE CASE ch[d] = "pos" -> 7 * Val(ch, d - 1, i) + 1
           [] ch[d] = "wide" -> 7 * Val(ch, d - 1, i) + 2 + 1000 * NPAt(ch, d - 1)
           [] ch[d] = "sel" -> Val(ch, d - 1, SelP[i + 1])

VARIABLES chain, cutat, kind, done
vars == <<chain, cutat, kind, done>>
Init == chain \in Chains /\ cutat = 0 /\ kind = "none" /\ done = FALSE
DoCut == /\ ~done /\ \E d \in 1..Len(chain), k \in CutKinds : cutat' = d /\ kind' = k
         /\ done' = TRUE /\ UNCHANGED chain
Next == DoCut
Spec == Init /\ [][Next]_vars

(* the import node: partition i aliases the head's partition i *)
ImportVal(i) == Val(chain, cutat, i)
ImportKnown == IF kind = "delayed_nodiv" THEN FALSE ELSE KnownAt(chain, cutat)
(* contents after the tail, computed over the import *)
RECURSIVE CutVal(_, _)
CutVal(d, i) ==
    IF d = cutat THEN ImportVal(i)
    ELSE CASE chain[d] = "pos" -> 7 * CutVal(d - 1, i) + 1
           [] chain[d] = "wide" -> 7 * CutVal(d - 1, i) + 2 + 1000 * NPAt(chain, d - 1)
           [] chain[d] = "sel" -> CutVal(d - 1, SelP[i + 1])
RECURSIVE CutKnown(_)
CutKnown(d) == IF d = cutat THEN ImportKnown ELSE IF chain[d] = "wide" THEN FALSE ELSE CutKnown(d - 1)

SelLegal == \A d \in DOMAIN chain : chain[d] = "sel" => NPAt(chain, d - 1) >= 2
SameResult == (done /\ SelLegal) => \A i \in 0..(NPAt(chain, Len(chain)) - 1) : CutVal(Len(chain), i) = Val(chain, Len(chain), i)
(* divisions are kept, or lost only where the cut kind documents it / the uncut query loses them too *)
DivisionsKeptOrDocumented == (done /\ SelLegal) => (CutKnown(Len(chain)) = KnownAt(chain, Len(chain)) \/ kind = "delayed_nodiv")
(* name of the import node after absorbing a selection directly above it *)
ImportName(sel) == IF NameCoversSelection THEN <<"import", cutat, kind, sel>> ELSE <<"import", cutat, kind>>
NamesDistinct == ImportName(<<0>>) # ImportName(<<1>>)
=============================================================================

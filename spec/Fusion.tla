------------------------------- MODULE Fusion -------------------------------
(***************************************************************************)
(* C14 - blockwise fusion only changes task granularity.                   *)
(*                                                                         *)
(* Transcription of optimize_blockwise_fusion / _fusion_pass and of        *)
(* Fused._task / Blockwise._blockwise_arg (dask_expr/_expr.py) over ALL    *)
(* small plan DAGs.  One Next step = one _fusion_pass (one group replaced  *)
(* by a Fused node); the iteration order of the sets the code walks        *)
(* (dependencies[name], the roots list) is nondeterministic, so TLC        *)
(* explores every order.  Partition contents are symbolic terms, so        *)
(* "fusion changes nothing" is equality of terms for every output index.   *)
(*                                                                         *)
(* A plan node: [bw (valid blockwise op), np (partitions), nd (ndim),      *)
(* ops (sequence of operand ids)], plus for Fused nodes fz = TRUE,         *)
(* mem (members, group order: mem[1] is the group root), ops = external    *)
(* dependencies (group_deps, duplicates kept as the code keeps them).      *)
(***************************************************************************)
EXTENDS Naturals, Integers, Sequences, FiniteSets, TLC, SequencesExt, FiniteSetsExt, Json

CONSTANTS N,        \* number of original nodes (1 = query root)
          NP        \* partition count of the multi-partition nodes (> 1)

SeqRange(s) == {s[i] : i \in DOMAIN s}
ERR == <<"ERR">>

(***************************************************************************)
(* plan semantics                                                          *)
(***************************************************************************)
(* Blockwise._broadcast_dep: dep.npartitions == 1 and dep.ndim < self.ndim ; Fused: dep.npartitions == 1 *)
Bcast(plan, e, d) == IF plan[e].fz THEN plan[d].np = 1 ELSE plan[d].np = 1 /\ plan[d].nd < plan[e].nd
ArgIdx(plan, e, d, i) == IF Bcast(plan, e, d) THEN 0 ELSE i            \* _blockwise_arg

RECURSIVE Val(_, _, _)
RECURSIVE FusedGraph(_, _, _)
RECURSIVE GetKey(_, _, _, _, _)

(* the task dict Fused._task(index) builds: function <<id, idx>> -> [op |-> "task", e, args] | [op |-> "alias", to] | [op |-> "ext", n] *)
FusedGraph(plan, f, index) ==
    LET mem == plan[f].mem
        one(m) ==                     \* the entries member m contributes
            IF plan[m].fz
            THEN (* nested group: its own sub-graph, plus (name, index) -> name *)
                 FusedGraph(plan, m, index) @@ (<<m, index>> :> [op |-> "alias", to |-> <<m, -1>>])
            ELSE LET ix == IF plan[m].np = 1 THEN 0 ELSE index IN      \* self._broadcast_dep(member): defined at 0 only
                 (<<m, ix>> :> [op |-> "task", e |-> m, args |-> [a \in DOMAIN plan[m].ops |-> <<plan[m].ops[a], ArgIdx(plan, m, plan[m].ops[a], ix)>>]])
        (* graph.update in member order: later members overwrite earlier ones *)
        RECURSIVE upd(_, _)
        upd(k, g) == IF k > Len(mem) THEN g ELSE upd(k + 1, one(mem[k]) @@ g)
        g0 == (<<f, -1>> :> [op |-> "alias", to |-> <<mem[1], index>>])       \* graph[self._name] = (exprs[0]._name, index)
        g1 == upd(1, g0)
        (* for i, dep in enumerate(self.dependencies()): graph[self._blockwise_arg(dep, index)] = "_i"  (overwrites) *)
        RECURSIVE ext(_, _)
        ext(k, g) == IF k > Len(plan[f].ops) THEN g
                     ELSE ext(k + 1, (<<plan[f].ops[k], ArgIdx(plan, f, plan[f].ops[k], index)>> :> [op |-> "ext", n |-> k]) @@ g)
    IN ext(1, g1)

(* dask.core.get on the fused sub-graph; deps: the values passed for "_0", "_1", ... *)
GetKey(plan, g, key, deps, fuel) ==
    IF fuel = 0 THEN ERR
    ELSE IF key \notin DOMAIN g THEN ERR                  \* a key tuple nothing defines reaches the function as a literal
    ELSE LET t == g[key] IN
         CASE t.op = "ext" -> deps[t.n]
           [] t.op = "alias" -> GetKey(plan, g, t.to, deps, fuel - 1)
           [] t.op = "task" ->
                LET vs == [a \in DOMAIN t.args |-> GetKey(plan, g, t.args[a], deps, fuel - 1)] IN
                IF \E a \in DOMAIN vs : vs[a] = ERR THEN ERR ELSE <<"b", t.e, vs>>

Val(plan, e, i) ==
    IF plan[e].fz
    THEN LET g == FusedGraph(plan, e, i)
             deps == [k \in DOMAIN plan[e].ops |-> Val(plan, plan[e].ops[k], ArgIdx(plan, e, plan[e].ops[k], i))]
         IN IF \E k \in DOMAIN deps : deps[k] = ERR THEN ERR ELSE GetKey(plan, g, <<e, -1>>, deps, 40)
    ELSE IF plan[e].bw
    THEN LET vs == [a \in DOMAIN plan[e].ops |-> Val(plan, plan[e].ops[a], ArgIdx(plan, e, plan[e].ops[a], i))] IN
         IF \E a \in DOMAIN vs : vs[a] = ERR THEN ERR ELSE <<"b", e, vs>>
    ELSE (* not partition-wise: output i depends on every partition of every operand *)
         LET vs == [a \in DOMAIN plan[e].ops |-> [q \in 1..plan[plan[e].ops[a]].np |-> Val(plan, plan[e].ops[a], q - 1)]] IN
         IF \E a \in DOMAIN vs : \E q \in DOMAIN vs[a] : vs[a][q] = ERR THEN ERR ELSE <<"w", e, i, vs>>

(***************************************************************************)
(* well-formed original plans                                              *)
(***************************************************************************)
Orig == 1..N
Shapes == {<<1, 0>>, <<1, 1>>, <<1, 2>>, <<NP, 1>>, <<NP, 2>>}            \* (npartitions, ndim); a scalar has one partition
OperandSeqs(i) == {<<a>> : a \in (i + 1)..N} \cup {<<a, b>> : a \in (i + 1)..N, b \in (i + 1)..N}
Node(bw, sh, ops) == [bw |-> bw, np |-> sh[1], nd |-> sh[2], ops |-> ops, fz |-> FALSE, mem |-> <<>>]
NodeChoices(i) == {Node(FALSE, sh, <<>>) : sh \in Shapes}                                          \* sources / leaves
              \cup {Node(bw, sh, ops) : bw \in BOOLEAN, sh \in Shapes, ops \in {o \in OperandSeqs(i) : Len(o) = 1 \/ o[1] <= o[2]}}
(* a partition-wise op sees equal partition counts or broadcastable (1 partition, lower ndim) operands *)
LocalOK(p, c) ==
    c.bw => /\ \A a \in DOMAIN c.ops : p[c.ops[a]].np = c.np \/ (p[c.ops[a]].np = 1 /\ p[c.ops[a]].nd < c.nd)
            /\ (c.np = 1 => \A a \in DOMAIN c.ops : p[c.ops[a]].np = 1)
            /\ (c.np = NP => \E a \in DOMAIN c.ops : p[c.ops[a]].np = NP)
RECURSIVE Build(_)
Build(i) == IF i > N THEN {<<>>}
            ELSE UNION {{(i :> c) @@ p : c \in {x \in NodeChoices(i) : LocalOK(p, x)}} : p \in Build(i + 1)}
            \* note: p is the partial plan of nodes i+1..N; LocalOK only looks at operands (> i)
Plans == {p \in Build(1) : /\ \A i \in 2..N : \E j \in 1..(i - 1) : i \in SeqRange(p[j].ops)     \* reachable from the root
                           /\ p[1].nd > 0}

(***************************************************************************)
(* _fusion_pass                                                            *)
(***************************************************************************)
VARIABLES plan, plan0, root, passes, finished
vars == <<plan, plan0, root, passes, finished>>

Reach(p, r) ==                                   \* nodes reachable from r through operands
    LET RECURSIVE go(_, _)
        go(front, acc) == IF front = {} THEN acc
                          ELSE LET nxt == UNION {SeqRange(p[e].ops) : e \in front} \ acc IN go(nxt, acc \cup nxt)
    IN go({r}, {r})
Valid(p, e) == p[e].bw                            \* is_valid_blockwise_op (Fused nodes are Blockwise)
Dependencies(p, r, e) == {d \in SeqRange(p[e].ops) : Valid(p, d)}
Dependents(p, r, d) == {e \in Reach(p, r) : d \in SeqRange(p[e].ops)}
Roots(p, r) == {e \in Reach(p, r) : Valid(p, e) /\ \A x \in Dependents(p, r, e) : ~Valid(p, x)}

(* group growth from `rt`: nondeterministic over the order in which deps are visited / popped.        *)
(* state of the inner loop: [stack (sequence), group (sequence), seen (set), newroots (set)]          *)
RECURSIVE Grow(_, _, _, _)
Grow(p, r, rt, st) ==        \* returns the SET of possible final [group, newroots]
    IF st.stack = <<>> THEN {[group |-> st.group, newroots |-> st.newroots]}
    ELSE LET nxt == st.stack[Len(st.stack)]                       \* stack.pop()
             rest == SubSeq(st.stack, 1, Len(st.stack) - 1)
         IN IF nxt \in st.seen THEN Grow(p, r, rt, [st EXCEPT !.stack = rest])
            ELSE LET grp == Append(st.group, nxt)
                     deps == Dependencies(p, r, nxt)
                     (* visit deps in every order *)
                     RECURSIVE visit(_, _, _)
                     visit(todo, stk, nr) ==
                        IF todo = {} THEN {[stack |-> stk, newroots |-> nr]}
                        ELSE UNION {
                               LET ok == /\ (p[d].np = p[rt].np \/ Bcast(p, nxt, d))
                                         /\ Dependents(p, r, d) \ (SeqRange(stk) \cup SeqRange(grp)) = {}
                               IN IF ok THEN visit(todo \ {d}, Append(stk, d), nr)
                                  ELSE IF Dependencies(p, r, d) # {} THEN visit(todo \ {d}, stk, nr \cup {d})
                                  ELSE visit(todo \ {d}, stk, nr)
                               : d \in todo}
                 IN UNION {Grow(p, r, rt, [stack |-> v.stack, group |-> grp, seen |-> st.seen \cup {nxt}, newroots |-> v.newroots])
                             : v \in visit(deps, rest, st.newroots)}

GroupDeps(p, grp) ==          \* group_deps: for every member, its dependencies() not in the group (duplicates kept)
    LET RECURSIVE acc(_)
        acc(k) == IF k > Len(grp) THEN <<>>
                  ELSE SelectSeq(p[grp[k]].ops, LAMBDA o : o \notin SeqRange(grp)) \o acc(k + 1)
    IN acc(1)

FreshId(p) == Max(DOMAIN p) + 1
Substitute(p, old, new) == [e \in DOMAIN p |-> [p[e] EXCEPT !.ops = [a \in DOMAIN p[e].ops |-> IF p[e].ops[a] = old THEN new ELSE p[e].ops[a]]]]

Init == plan \in Plans /\ plan0 = plan /\ root = 1 /\ passes = 0 /\ finished = FALSE

(* one _fusion_pass: pick roots in any order until a group with more than one member is found *)
RECURSIVE PassOutcomes(_, _, _, _)
PassOutcomes(p, r, roots, tried) ==        \* set of [fused |-> BOOLEAN, grp, more |-> roots left non-empty]
    IF roots = {} THEN {[fused |-> FALSE, grp |-> <<>>, more |-> FALSE]}
    ELSE UNION { LET outs == Grow(p, r, rt, [stack |-> <<rt>>, group |-> <<>>, seen |-> {}, newroots |-> {}]) IN
                 UNION { IF Len(o.group) > 1
                         THEN {[fused |-> TRUE, grp |-> o.group, more |-> ((roots \ {rt}) \cup (o.newroots \ (tried \cup {rt}))) # {}]}
                         ELSE PassOutcomes(p, r, (roots \ {rt}) \cup (o.newroots \ (tried \cup {rt})), tried \cup {rt})
                         : o \in outs }
                 : rt \in roots }

FusionPass ==
    /\ ~finished
    /\ \E o \in PassOutcomes(plan, root, Roots(plan, root), {}) :
         IF o.fused
         THEN LET f == FreshId(plan)
                  fnode == [bw |-> TRUE, np |-> plan[o.grp[1]].np, nd |-> plan[o.grp[1]].nd,
                            ops |-> GroupDeps(plan, o.grp), fz |-> TRUE, mem |-> o.grp]
                  p1 == Substitute(plan, o.grp[1], f) @@ (f :> fnode)
              IN /\ plan' = p1
                 /\ root' = IF root = o.grp[1] THEN f ELSE root
                 /\ passes' = passes + 1
                 /\ finished' = ~o.more            \* "return _ret, not roots"
                 /\ UNCHANGED plan0
         ELSE /\ finished' = TRUE /\ UNCHANGED <<plan, plan0, root, passes>>
Next == FusionPass
Spec == Init /\ [][Next]_vars

(***************************************************************************)
(* properties                                                              *)
(***************************************************************************)
(* every output partition of the (partially) fused plan is the same term as in the original plan *)
SamePartitions == \A i \in 0..(plan0[1].np - 1) : Val(plan, root, i) = Val(plan0, 1, i)
SameLayout == plan[root].np = plan0[1].np /\ plan[root].nd = plan0[1].nd
Terminates == passes <= N
TypeOK == root \in DOMAIN plan
Report == ~SamePartitions => PrintT("DESIGN|SamePartitions|" \o ToJson([plan0 |-> plan0, groups |-> [e \in {x \in DOMAIN plan : plan[x].fz} |-> plan[e].mem], root |-> root]))
EmitPlans(file) == ndJsonSerialize(file, SetToSeq({[plan |-> p] : p \in Plans}))
=============================================================================

----------------------------- MODULE DriverTrace -----------------------------
(***************************************************************************)
(* C19 conformance: one line per query, recorded through the guarded hooks *)
(* while optimize() ran on the real code.                                  *)
(*  calls:   the simplify() invocations of one optimize(): each a sequence  *)
(*           of passes <<before, after>> (expression names numbered)       *)
(*  steps:   accepted rewrite steps; nodes: size of the query tree         *)
(*  raised:  error class of optimize() ("" if none)                        *)
(*  names:   name of optimize(q) over repetitions in this process and in   *)
(*           fresh interpreters with other hash seeds (numbered)           *)
(*  idem:    [err, same]  for optimize(optimize(q)): raised? same result?  *)
(* The trace must be a behaviour of Driver!Spec that ends in "converged".  *)
(***************************************************************************)
EXTENDS Naturals, Integers, Sequences, FiniteSets, TLC, SequencesExt, Json, IOUtils

CONSTANTS MaxPasses, StepsPerNode
T == ndJsonDeserialize(IOEnv.TRACE_FILE)
SeqRange(s) == {s[i] : i \in DOMAIN s}

(* one simplify() call replayed on the Driver state machine *)
CallOK(ps) ==
    /\ Len(ps) >= 1
    /\ \A i \in 2..Len(ps) : ps[i][1] = ps[i - 1][2]                         \* expr' = new
    /\ ps[Len(ps)][1] = ps[Len(ps)][2]                                       \* ends with new = expr: converged
    /\ \A i \in 1..(Len(ps) - 1) : ps[i][1] # ps[i][2]                        \* earlier passes changed something
    /\ \A i, j \in 1..(Len(ps) - 1) : i # j => ps[i][2] # ps[j][2]            \* no expression produced twice (else: raise)

Verdict(t) ==
    IF t.unopt_err THEN "ok"                                   \* the query cannot even be lowered: outside the property
    ELSE IF t.raised # "" THEN "Raised:" \o t.raised
    ELSE IF \E c \in DOMAIN t.calls : ~CallOK(t.calls[c]) THEN "PassChain"
    ELSE IF \E c \in DOMAIN t.calls : Len(t.calls[c]) > MaxPasses THEN "BoundedPasses"
    ELSE IF t.steps > StepsPerNode * (t.nodes + 1) THEN "BoundedSteps"
    ELSE IF Cardinality(SeqRange(t.names)) > 1 THEN "Deterministic"
    ELSE IF t.idem[1] THEN "IdempotentNoError"
    ELSE IF ~t.idem[2] THEN "IdempotentResult"
    ELSE "ok"

VARIABLES n, bad
Init == n = 1 /\ bad = 0
Next == /\ n <= Len(T)
        /\ LET v == Verdict(T[n]) IN
             /\ (v # "ok") => PrintT("REJECT|" \o ToString(T[n].tid) \o "|" \o v)
             /\ bad' = bad + (IF v = "ok" THEN 0 ELSE 1)
        /\ n' = n + 1
AllConsumed == TLCGet("stats").diameter = Len(T) + 1
=============================================================================

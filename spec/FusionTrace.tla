----------------------------- MODULE FusionTrace -----------------------------
(***************************************************************************)
(* C14 conformance: one line per plan executed with fusion on and off.     *)
(* parts_f / parts_u: the output partitions (rows numbered by the harness: *)
(* equal number <=> equal index label and values) of optimize(fuse=True)   *)
(* and optimize(fuse=False); np / div / schema as reported by both.        *)
(***************************************************************************)
EXTENDS Naturals, Integers, Sequences, FiniteSets, TLC, SequencesExt, Json, IOUtils

T == ndJsonDeserialize(IOEnv.TRACE_FILE)
Sorted(rows) == SortSeq(rows, <)

Verdict(t) ==
    IF t.err_u THEN "ok"                                   \* the unfused plan itself fails: nothing to compare
    ELSE IF t.err_f THEN "NoNewError"
    ELSE IF t.np_f # t.np_u \/ Len(t.parts_f) # Len(t.parts_u) THEN "SameNPartitions"
    ELSE IF t.div_f # t.div_u THEN "SameDivisions"
    ELSE IF t.schema_f # t.schema_u THEN "SameSchema"
    ELSE IF \E i \in DOMAIN t.parts_u :
              IF t.ordered THEN t.parts_f[i] # t.parts_u[i] ELSE Sorted(t.parts_f[i]) # Sorted(t.parts_u[i])
         THEN "SamePartitions"
    ELSE "ok"

VARIABLES n, bad
Init == n = 1 /\ bad = 0
Next == /\ n <= Len(T)
        /\ LET v == Verdict(T[n]) IN
             /\ (v # "ok") => PrintT("REJECT|" \o ToString(T[n].tid) \o "|" \o v)
             /\ bad' = bad + (IF v = "ok" THEN 0 ELSE 1)
        /\ n' = n + 1
AllConsumed == TLCGet("stats").diameter = Len(T) + 1
=============================================================================

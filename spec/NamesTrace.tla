----------------------------- MODULE NamesTrace -----------------------------
(***************************************************************************)
(* C08 conformance.  Lines:                                                *)
(*  kind "det":   one query node (or task key) seen in several builds      *)
(*                (processes, hash seeds, construction orders, after       *)
(*                unrelated queries): names = its name in every build.     *)
(*                Deterministic: all equal.                                *)
(*  kind "inj":   a group of nodes of one build that share one NAME:       *)
(*                fps = their fingerprints (class + canonical operands,    *)
(*                data by content hash, computed without tokenize).        *)
(*                Injective: one fingerprint.                              *)
(*  kind "key":   one task key over all graphs of one build: toks = task   *)
(*                tokens under that key.  Unambiguous: one token.          *)
(*  kind "alias": a realised collision candidate: built = class of the     *)
(*                object the constructor returned, asked = class asked.    *)
(***************************************************************************)
EXTENDS Naturals, Integers, Sequences, FiniteSets, TLC, SequencesExt, Json, IOUtils

T == ndJsonDeserialize(IOEnv.TRACE_FILE)
SeqRange(s) == {s[i] : i \in DOMAIN s}

Verdict(t) ==
    CASE t.kind = "det" -> IF Cardinality(SeqRange(t.names)) > 1 THEN "Deterministic" ELSE "ok"
      [] t.kind = "inj" -> IF Cardinality(SeqRange(t.fps)) > 1 THEN "Injective" ELSE "ok"
      [] t.kind = "key" -> IF Cardinality(SeqRange(t.toks)) > 1 THEN "UnambiguousKeys" ELSE "ok"
      [] t.kind = "alias" -> IF t.same_name /\ t.built # t.asked THEN "NoAliasing" ELSE "ok"
      [] OTHER -> "UnknownKind"

VARIABLES n, bad
Init == n = 1 /\ bad = 0
Next == /\ n <= Len(T)
        /\ LET v == Verdict(T[n]) IN
             /\ (v # "ok") => PrintT("REJECT|" \o ToString(T[n].tid) \o "|" \o v)
             /\ bad' = bad + (IF v = "ok" THEN 0 ELSE 1)
        /\ n' = n + 1
AllConsumed == TLCGet("stats").diameter = Len(T) + 1
=============================================================================

------------------------------ MODULE PlanWalk ------------------------------
(* C09 / C08 design-level model of graph assembly; the invariants themselves are in PlanWalkOps. *)
EXTENDS PlanWalkOps

(***************************************************************************)
(* Design-level model of graph assembly (Expr.__dask_graph__)              *)
(***************************************************************************)
CONSTANTS NNodes,        \* expression nodes 1..NNodes; node 1 is the root
          NNames         \* names are 1..NNames (fewer names than nodes => collisions are possible)

(* a DAG: children[i] \subseteq (i+1)..NNodes ; a naming: name[i] ; each node contributes keys <<name, 0>> with token i *)
VARIABLES children, name, stack, seen, layers, done
vars == <<children, name, stack, seen, layers, done>>

Init == /\ children \in [1..NNodes -> SUBSET (1..NNodes)]
        /\ \A i \in 1..NNodes : \A c \in children[i] : c > i
        /\ \A i \in 2..NNodes : \E p \in 1..(i - 1) : i \in children[p]         \* every node reachable
        /\ name \in [1..NNodes -> 1..NNames]
        /\ stack = <<1>> /\ seen = {} /\ layers = <<>> /\ done = FALSE

Pop == /\ stack # <<>> /\ ~done
       /\ LET e == Head(stack) IN
          IF name[e] \in seen
          THEN /\ stack' = Tail(stack) /\ UNCHANGED <<seen, layers>>
          ELSE /\ seen' = seen \cup {name[e]}
               /\ layers' = Append(layers, [k |-> name[e], layer |-> e, tok |-> e,
                                            deps |-> SetToSeq({name[c] : c \in children[e]}), planner |-> FALSE])
               /\ stack' = SetToSeq(children[e]) \o Tail(stack)
       /\ UNCHANGED <<children, name, done>>
Finish == /\ stack = <<>> /\ ~done /\ done' = TRUE /\ UNCHANGED <<children, name, stack, seen, layers>>
Next == Pop \/ Finish
Spec == Init /\ [][Next]_vars

Injective == \A i, j \in 1..NNodes : name[i] = name[j] => i = j
(* with collision-free names the assembled graph always satisfies the C09 invariants ... *)
AssemblyOK == (done /\ Injective) => GraphVerdict(layers, <<name[1]>>) = "ok"
(* ... and it contains one layer per node (nothing silently dropped) *)
NothingDropped == (done /\ Injective) => Len(layers) = NNodes
(* with a collision the walk silently drops a node: the graph has fewer layers than the DAG has nodes, *)
(* i.e. some expression's tasks were replaced by another's - the consequence clause of C08           *)
CollisionDrops == (done /\ ~Injective) => Len(layers) < NNodes
=============================================================================

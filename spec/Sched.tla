-------------------------------- MODULE Sched --------------------------------
(***************************************************************************)
(* C05 - results do not depend on task scheduling; tasks never mutate      *)
(* their inputs.                                                           *)
(*                                                                         *)
(* A task graph executed by W workers: a task may start when all its       *)
(* dependencies have finished and a worker is idle.  To express the        *)
(* hazard the property excludes, a task t may carry Mut[t] \subseteq       *)
(* Deps[t]: finishing t then CHANGES the stored value of those keys        *)
(* (an in-place modification of an argument).  Values are version numbers. *)
(*  - design level (small graphs, all schedules): every consumer sees the  *)
(*    pristine version of its inputs iff no task mutates (Pristine), and   *)
(*    with a mutator some schedule shows a consumer the changed value.     *)
(*  - schedule generation: for the dependency graph of a REAL task graph   *)
(*    (Deps given by the harness) TLC -simulate prints complete schedules  *)
(*    (`order`), which the harness replays task by task in the real code.  *)
(***************************************************************************)
EXTENDS Naturals, Integers, Sequences, FiniteSets, TLC, SequencesExt, FiniteSetsExt, Json

CONSTANTS NT,          \* tasks are 1..NT
          Deps,        \* [1..NT -> SUBSET (1..NT)]
          Mut,         \* [1..NT -> SUBSET (1..NT)]  with Mut[t] \subseteq Deps[t]
          W            \* number of workers

Tasks == 1..NT
VARIABLES done, running, ver, saw, order
vars == <<done, running, ver, saw, order>>

Init == /\ done = {} /\ running = [w \in 1..W |-> 0] /\ ver = [t \in Tasks |-> 0]
        /\ saw = [t \in Tasks |-> 0] /\ order = <<>>

Busy == {running[w] : w \in 1..W} \ {0}
Start(w, t) == /\ running[w] = 0 /\ t \notin done /\ t \notin Busy
               /\ Deps[t] \subseteq done                                  \* Safety is built into the scheduler contract
               /\ running' = [running EXCEPT ![w] = t]
               /\ saw' = [saw EXCEPT ![t] = Max({ver[d] : d \in Deps[t]} \cup {0})]   \* the newest version among its inputs
               /\ order' = Append(order, t)
               /\ UNCHANGED <<done, ver>>
Finish(w) == /\ running[w] # 0
             /\ LET t == running[w] IN
                /\ done' = done \cup {t}
                /\ ver' = [k \in Tasks |-> IF k \in Mut[t] THEN ver[k] + 1 ELSE ver[k]]  \* in-place change of an argument
             /\ running' = [running EXCEPT ![w] = 0]
             /\ UNCHANGED <<saw, order>>
Next == (\E w \in 1..W, t \in Tasks : Start(w, t)) \/ (\E w \in 1..W : Finish(w))
Spec == Init /\ [][Next]_vars /\ WF_vars(Next)

Complete == done = Tasks
NoMutators == \A t \in Tasks : Mut[t] = {}
(* every task saw only pristine inputs *)
Pristine == \A t \in Tasks : saw[t] = 0
SafeWhenPure == NoMutators => Pristine
(* all tasks eventually run (no deadlock in an acyclic graph) *)
Progress == <>Complete
(* printing complete schedules (used with -simulate) *)
EmitSchedule == Complete => PrintT("SCHED|" \o ToJson(order))
(* a mutator with a consumer that can run after it: some schedule is not pristine (reported, for the design run) *)
ReportHazard == (Complete /\ ~Pristine) => PrintT("HAZARD|" \o ToJson([order |-> order, saw |-> saw]))
=============================================================================

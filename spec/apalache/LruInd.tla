------------------------------- MODULE LruInd -------------------------------
(***************************************************************************)
(* The bounded cache of dask_expr/_util.py (LRU), as modelled in           *)
(* spec/Hist.tla and validated against recorded events by                  *)
(* spec/LruTrace.tla, with an INDUCTIVE invariant discharged by Apalache:  *)
(*   IndInv  ==  the cache never holds more than Cap keys, and no key twice*)
(* Checked as  Init => IndInv  (length 0) and  IndInv /\ Next => IndInv'   *)
(* (length 1, from an arbitrary sequence of up to MaxLen keys satisfying   *)
(* IndInv), i.e. for every reachable AND unreachable cache content of that *)
(* size - not only for the states a bounded run visits.                    *)
(*   apalache-mc check --init=IndInit --inv=IndInv --length=1 LruInd.tla   *)
(***************************************************************************)
EXTENDS Integers, Sequences, Apalache

CONSTANT
    \* @type: Int;
    Cap

VARIABLE
    \* @type: Seq(Int);
    lru

KeySpace == 0..6
MaxLen == 5
CInit == Cap \in 1..4

\* @type: (Seq(Int)) => Set(Int);
Keys(l) == {l[i] : i \in DOMAIN l}
\* @type: (Seq(Int), Int) => Seq(Int);
Without(l, k) == LET \* @type: (Seq(Int), Int) => Seq(Int);
                     step(acc, x) == IF x = k THEN acc ELSE Append(acc, x)
                 IN ApaFoldSeqLeft(step, <<>>, l)
(* __setitem__: at capacity the least recently used key leaves first - even when the key is already present; an existing
   key keeps its position *)
\* @type: (Seq(Int), Int) => Seq(Int);
Put(l, k) == LET base == IF Len(l) >= Cap THEN Tail(l) ELSE l IN
             IF k \in Keys(base) THEN base ELSE Append(base, k)
(* __getitem__: the key moves to the most recently used end *)
\* @type: (Seq(Int), Int) => Seq(Int);
Touch(l, k) == Append(Without(l, k), k)

Init == lru = <<>>
Next == \E k \in KeySpace : \/ lru' = Put(lru, k)
                            \/ (k \in Keys(lru) /\ lru' = Touch(lru, k))

IndInv == /\ Len(lru) <= Cap
          /\ \A i \in DOMAIN lru : \A j \in DOMAIN lru : i # j => lru[i] # lru[j]
          /\ \A i \in DOMAIN lru : lru[i] \in KeySpace
IndInit == /\ lru = Gen(MaxLen)
           /\ IndInv
=============================================================================

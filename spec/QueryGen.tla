------------------------------ MODULE QueryGen ------------------------------
(***************************************************************************)
(* The program space of the optimizer / partitioning properties            *)
(* (C01, C02, C03, C04, C10, C17, C19): DataFrame queries as a state       *)
(* machine.  A state is a query built so far (`q`: the abstract syntax     *)
(* tree) together with its abstract schema `sc` (container kind, ordered   *)
(* column labels, whether the query defines the row order, whether it      *)
(* defines the index labels).  One transition = one public API call.       *)
(* TLC enumerates the reachable states (BFS to depth MaxOps, or -simulate) *)
(* and prints each one; the harness replays them through the real API.     *)
(*                                                                         *)
(* The typing rules (which operator applies to which schema) and the       *)
(* order / index definedness rules are part of the specification: they say *)
(* where dask-expr documents row order or index labels as unspecified.     *)
(***************************************************************************)
EXTENDS Rel, Json

CONSTANTS MaxOps,      \* maximal number of operators above the first source
          Focus        \* "general" | "filter" | "project" | "partitioned" | "knobs" : biases the operator sets

(* lexicographic order of the (short, lower-case) column labels, as pandas sorts a column union *)
Alphabet == <<"_", "a", "b", "c", "k", "l", "p", "r", "s", "x", "y", "z">>
CharRank(ch) == IF \E i \in DOMAIN Alphabet : Alphabet[i] = ch THEN CHOOSE i \in DOMAIN Alphabet : Alphabet[i] = ch ELSE 0
RECURSIVE StrLess(_, _)
StrLess(x, y) == IF x = "" THEN y # ""
                 ELSE IF y = "" THEN FALSE
                 ELSE LET a == SubSeq(x, 1, 1)  b == SubSeq(y, 1, 1) IN
                      IF a = b THEN StrLess(SubSeq(x, 2, Len(x)), SubSeq(y, 2, Len(y))) ELSE CharRank(a) < CharRank(b)
Idx(s, x) == CHOOSE i \in DOMAIN s : s[i] = x
Has(s, x) == x \in SeqRange(s)
Without(s, X) == SelectSeq(s, LAMBDA c : c \notin X)

(* sources: T1(a, b, k) and T2(k, b, c); index named "ix" *)
SrcCols(t) == IF t = "T1" THEN <<"a", "b", "k">> ELSE <<"k", "b", "c">>
Src(t) == [op |-> "src", t |-> t]
SrcSchema(t) == [kind |-> "frame", cols |-> SrcCols(t), ord |-> TRUE, idx |-> TRUE, nsrc |-> 1, name |-> "", closed |-> FALSE, tainted |-> FALSE]
(* tainted: a row selection depended on ALL columns of a frame whose columns were not yet fixed by the query
   (drop_duplicates without subset, dropna): widening the inputs may then legitimately change the result *)
(* closed: the columns of the result are fixed by the query itself (an explicit selection happened and no whole
   second source was brought in afterwards): only then "adding unused columns to the inputs" leaves the result unchanged *)

(***************************************************************************)
(* predicates                                                              *)
(***************************************************************************)
Cmp(f, c, v) == [p |-> "cmp", f |-> f, col |-> c, v |-> v]
CmpCC(f, c, d) == [p |-> "cmpcol", f |-> f, col |-> c, col2 |-> d]
IsNa(c) == [p |-> "isna", col |-> c]
IsIn(c, vs) == [p |-> "isin", col |-> c, vals |-> vs]
And(x, y) == [p |-> "and", a |-> x, b |-> y]
Or(x, y) == [p |-> "or", a |-> x, b |-> y]
Not(x) == [p |-> "not", a |-> x]

Atoms(cols) ==
    LET c1 == cols[1]
        c2 == IF Len(cols) >= 2 THEN cols[2] ELSE cols[1]
        cl == cols[Len(cols)]
    IN {Cmp("gt", c1, 1), Cmp("le", c2, 1), Cmp("ne", cl, 2), Cmp("eq", c2, 0), IsNa(c1), IsIn(cl, <<0, 2>>)}
       \cup (IF Len(cols) >= 2 THEN {CmpCC("lt", c1, c2)} ELSE {})
       \cup {Cmp("gt", cols[i], 0) : i \in DOMAIN cols}            \* every column is filtered on by some program

Preds(cols) ==
    LET A == Atoms(cols)
        c1 == cols[1]
        c2 == IF Len(cols) >= 2 THEN cols[2] ELSE cols[1]
        cl == cols[Len(cols)]
        P == Cmp("gt", c1, 0)  Q == Cmp("le", c2, 2)  R == Cmp("ne", cl, 1)
    IN IF Focus = "filter"
       THEN A \cup {And(P, Q), Or(P, Q), Not(P), Not(IsNa(c2)), And(P, Not(R)), And(R, P), And(Q, R), And(R, Q),
                    Or(And(P, Q), P), Or(And(P, Q), And(P, R)), Or(And(P, Q), And(R, P)), Or(And(And(P, Q), R), And(P, R)),
                    Or(And(P, Q), And(Not(P), R)), And(Or(P, Q), R), Or(P, IsNa(c2)), Not(Or(P, Q))}
       ELSE ({Cmp("gt", c1, 1), Cmp("ne", cl, 2), And(P, Q), Or(And(P, Q), And(P, R)), CmpCC("lt", c1, c2)} \cap (A \cup {And(P, Q), Or(And(P, Q), And(P, R))}))
            \cup {Cmp("gt", cols[i], 0) : i \in DOMAIN cols}

(* column expressions for assign *)
ColE(c) == [x |-> "col", col |-> c]
LitE(v) == [x |-> "lit", v |-> v]
BinE(f, l, r) == [x |-> "bin", f |-> f, l |-> l, r |-> r]

(***************************************************************************)
(* operator instances applicable to a schema: set of <<node-without-child, new schema>>   *)
(***************************************************************************)
NumCols(sc) == sc.cols            \* every column of the tier-1 tables is numeric

ProjOps(sc) ==
    LET n == Len(sc.cols)
        \* ordered pairs of distinct columns; outside the projection focus only the reordering pairs (j before i)
        pairs == {ij \in (1..n) \X (1..n) : ij[1] # ij[2] /\ (Focus = "project" \/ ij[1] > ij[2])}
    IN
    IF sc.kind # "frame" THEN {} ELSE
    {<<[op |-> "proj", cols |-> <<sc.cols[i]>>], [sc EXCEPT !.cols = <<sc.cols[i]>>, !.closed = ~sc.tainted]>> : i \in 1..n}
    \cup {<<[op |-> "proj", cols |-> <<sc.cols[ij[1]], sc.cols[ij[2]]>>], [sc EXCEPT !.cols = <<sc.cols[ij[1]], sc.cols[ij[2]]>>, !.closed = ~sc.tainted]>> : ij \in pairs}
    \cup (IF n >= 2 THEN {<<[op |-> "drop", col |-> sc.cols[i]], [sc EXCEPT !.cols = Without(sc.cols, {sc.cols[i]})]>> : i \in {1, n}} ELSE {})   \* Drop: rewritten into a projection of the complement (the column set stays open: closed unchanged)
    \cup {<<[op |-> "col", col |-> sc.cols[i]], [sc EXCEPT !.kind = "series", !.cols = <<>>, !.name = sc.cols[i], !.closed = ~sc.tainted]>> : i \in 1..n}

FilterOps(sc) ==
    IF sc.kind # "frame" THEN {} ELSE
    {<<[op |-> "filter", pred |-> p], sc>> : p \in Preds(sc.cols)}

AssignOps(sc) ==
    IF sc.kind # "frame" THEN {} ELSE
    LET c1 == sc.cols[1]  cl == sc.cols[Len(sc.cols)] IN
    {<<[op |-> "assign", col |-> "z", e |-> BinE("add", ColE(c1), LitE(1))],
       [sc EXCEPT !.cols = IF Has(sc.cols, "z") THEN sc.cols ELSE Append(sc.cols, "z")]>>,
     <<[op |-> "assign", col |-> c1, e |-> BinE("mul", ColE(cl), LitE(2))], sc>>,
     <<[op |-> "assign", col |-> "z", e |-> BinE("add", ColE(c1), ColE(cl))],
       [sc EXCEPT !.cols = IF Has(sc.cols, "z") THEN sc.cols ELSE Append(sc.cols, "z")]>>}

RenameOps(sc) ==
    IF sc.kind # "frame" THEN {} ELSE
    LET c1 == sc.cols[1] IN
    (IF Has(sc.cols, "x") THEN {} ELSE
       {<<[op |-> "rename", from |-> c1, to |-> "x"], [sc EXCEPT !.cols = [i \in DOMAIN sc.cols |-> IF i = 1 THEN "x" ELSE sc.cols[i]]]>>})
    \cup (IF Focus \in {"project", "general"} /\ \A i \in DOMAIN sc.cols : Len(sc.cols[i]) <= 3
          \* affixes that share characters with column labels ("k_" + "k", "b" + "_b")
          THEN {<<[op |-> "addprefix", s |-> "k_"], [sc EXCEPT !.cols = [i \in DOMAIN sc.cols |-> "k_" \o sc.cols[i]]]>>,
                <<[op |-> "addsuffix", s |-> "_b"], [sc EXCEPT !.cols = [i \in DOMAIN sc.cols |-> sc.cols[i] \o "_b"]]>>}
          ELSE {})

ElemOps(sc) ==
    IF sc.kind = "scalar" THEN {} ELSE
    {<<[op |-> "elem", f |-> f], sc>> : f \in {"add1", "fillna0", "neg", "astypefloat", "abs", "clip01", "where0"}}
    \cup (IF sc.kind = "frame" THEN {<<[op |-> "dropna"], [sc EXCEPT !.tainted = sc.tainted \/ ~sc.closed]>>} ELSE {})

ReduceOps(sc) ==
    IF sc.kind = "series" THEN {<<[op |-> "reduce", f |-> f], [sc EXCEPT !.kind = "scalar", !.cols = <<>>, !.ord = TRUE, !.idx = TRUE]>> : f \in {"sum", "count", "min", "max", "nunique", "mean"}}
                                \cup {<<[op |-> "len"], [sc EXCEPT !.kind = "scalar", !.cols = <<>>, !.ord = TRUE, !.idx = TRUE]>>}
    ELSE IF sc.kind = "frame" THEN {<<[op |-> "reduce", f |-> f], [sc EXCEPT !.kind = "series", !.cols = <<>>, !.name = "", !.ord = TRUE, !.idx = TRUE]>> : f \in {"sum", "count", "max"}}
                                   \cup {<<[op |-> "len"], [sc EXCEPT !.kind = "scalar", !.cols = <<>>, !.ord = TRUE, !.idx = TRUE, !.closed = ~sc.tainted]>>}
    ELSE {}

GroupOps(sc) ==
    IF sc.kind # "frame" \/ Len(sc.cols) < 2 THEN {} ELSE
    LET key == sc.cols[Len(sc.cols)]
        rest == Without(sc.cols, {key})
    IN (IF Focus = "knobs"        \* NULL keys kept as a group: a parameter of the query, exercised under every knob value
        THEN {<<[op |-> "groupby", by |-> <<key>>, f |-> f, sort |-> TRUE, dropna |-> FALSE], [sc EXCEPT !.cols = rest, !.ord = TRUE, !.idx = TRUE]>> : f \in {"sum", "var", "mean"}}
        ELSE {})
       \cup
       {<<[op |-> "groupby", by |-> <<key>>, f |-> f, sort |-> TRUE], [sc EXCEPT !.cols = rest, !.ord = TRUE, !.idx = TRUE]>> :
            f \in {"sum", "count", "min", "max", "mean", "var"} \cup (IF sc.ord THEN {"first"} ELSE {})}   \* first needs a defined row order
       \cup {<<[op |-> "groupby", by |-> <<sc.cols[1]>>, f |-> "sum", sort |-> TRUE], [sc EXCEPT !.cols = Without(sc.cols, {sc.cols[1]}), !.ord = TRUE, !.idx = TRUE]>>}

SuffixPairs == {<<"_x", "_y">>, <<"", "_r">>, <<"_l", "">>}
MergedCols(lc, rc, on, sfx) ==
    LET both == {c \in SeqRange(lc) \cap SeqRange(rc) : c \notin on}
        lren == [i \in DOMAIN lc |-> IF lc[i] \in both THEN lc[i] \o sfx[1] ELSE lc[i]]
        rren == [i \in DOMAIN rc |-> IF rc[i] \in both THEN rc[i] \o sfx[2] ELSE rc[i]]
    IN lren \o SelectSeq(rren, LAMBDA c : c \notin on)

MergeOps(sc) ==
    IF sc.kind # "frame" \/ ~Has(sc.cols, "k") \/ sc.nsrc >= 2 THEN {} ELSE
    {<<[op |-> "merge", other |-> t, how |-> h, on |-> <<"k">>, suffixes |-> s],
       [sc EXCEPT !.cols = IF h = "leftsemi" THEN sc.cols ELSE MergedCols(sc.cols, SrcCols(t), {"k"}, s),
                  !.ord = FALSE, !.idx = FALSE, !.nsrc = 2, !.closed = (h = "leftsemi" /\ sc.closed)]>> :
        t \in {"T2"}, h \in {"inner", "left", "right", "outer", "leftsemi"}, s \in (IF Focus \in {"filter", "project", "general"} THEN SuffixPairs ELSE {<<"_x", "_y">>})}

(* merge_asof on the (sorted) index: defined while the rows still are in source order under their source labels *)
AsofOps(sc) ==
    IF sc.kind # "frame" \/ sc.nsrc >= 2 \/ ~sc.ord \/ ~sc.idx \/ Focus \notin {"partitioned", "general", "project"} THEN {} ELSE
    {<<[op |-> "mergeasof", other |-> "T2", dir |-> d, by |-> b],
       [sc EXCEPT !.cols = MergedCols(sc.cols, SrcCols("T2"), SeqRange(b), <<"_x", "_y">>), !.ord = TRUE, !.idx = TRUE, !.nsrc = 2, !.closed = FALSE]>> :
        d \in {"backward", "forward", "nearest"}, b \in {<<>>} \cup (IF Has(sc.cols, "b") THEN {<<"b">>} ELSE {})}

ConcatOps(sc) ==
    IF sc.kind # "frame" \/ sc.nsrc >= 2 THEN {} ELSE
    {<<[op |-> "concat", other |-> "T2", join |-> j],
       [sc EXCEPT !.cols = IF j = "inner" THEN SelectSeq(sc.cols, LAMBDA c : Has(SrcCols("T2"), c))
                           ELSE sc.cols \o SelectSeq(SrcCols("T2"), LAMBDA c : ~Has(sc.cols, c)),
                  !.nsrc = 2, !.idx = TRUE, !.closed = FALSE]>> : j \in {"outer", "inner"}}
    \cup (IF Focus \in {"project", "general"}
          THEN {<<[op |-> "combinefirst", other |-> "T2"],
                  [sc EXCEPT !.cols = SetToSortSeq(SeqRange(sc.cols) \cup SeqRange(SrcCols("T2")), LAMBDA x, y : StrLess(x, y)),
                             !.nsrc = 2, !.idx = TRUE, !.closed = FALSE]>>}
          ELSE {})

SortOps(sc) ==
    IF sc.kind # "frame" THEN {} ELSE
    LET c1 == sc.cols[1]  cl == sc.cols[Len(sc.cols)] IN
    {<<[op |-> "sort", by |-> <<c1>>, asc |-> TRUE], [sc EXCEPT !.ord = FALSE, !.idx = sc.idx]>>,
     <<[op |-> "sort", by |-> <<cl, c1>>, asc |-> TRUE], [sc EXCEPT !.ord = FALSE]>>,
     <<[op |-> "sort", by |-> <<cl>>, asc |-> FALSE], [sc EXCEPT !.ord = FALSE]>>,
     <<[op |-> "setindex", col |-> cl], [sc EXCEPT !.cols = Without(sc.cols, {cl}), !.ord = FALSE, !.idx = TRUE]>>,
     <<[op |-> "resetindex", drop |-> TRUE], [sc EXCEPT !.idx = FALSE]>>}
    \* ord = FALSE after a sort: the result is sorted by the key but ties are free; the acceptance relation
    \* checks sortedness by the key separately (node attribute `by`)

RowOps(sc) ==
    IF sc.kind = "scalar" THEN {} ELSE
    (IF sc.ord THEN {<<[op |-> "head", n |-> 3], sc>>, <<[op |-> "tail", n |-> 2], sc>>} ELSE {})
    \cup (IF sc.ord /\ sc.kind \in {"frame", "series"}
          THEN {<<[op |-> "cum", f |-> f], sc>> : f \in {"cumsum", "cummax"}}
               \cup {<<[op |-> "shift", n |-> 1], sc>>, <<[op |-> "diff", n |-> 1], sc>>, <<[op |-> "ffill"], sc>>}
          ELSE {})
    \cup (IF sc.kind = "frame"
          THEN (IF sc.ord
                THEN {<<[op |-> "dropdup", subset |-> <<sc.cols[Len(sc.cols)]>>], [sc EXCEPT !.ord = FALSE]>>,   \* keep="first" needs a defined input order
                      <<[op |-> "nlargest", n |-> 2, col |-> sc.cols[1]], [sc EXCEPT !.ord = FALSE]>>,
                      <<[op |-> "nsmallest", n |-> 2, col |-> sc.cols[Len(sc.cols)]], [sc EXCEPT !.ord = FALSE]>>}           \* ties are broken by input order
                ELSE {})
               \cup {<<[op |-> "dropdup", subset |-> <<>>], [sc EXCEPT !.ord = FALSE, !.tainted = sc.tainted \/ ~sc.closed]>>}
          ELSE {<<[op |-> "unique"], [sc EXCEPT !.ord = FALSE, !.idx = FALSE]>>,
                <<[op |-> "valuecounts"], [sc EXCEPT !.ord = FALSE, !.idx = TRUE, !.name = "count"]>>})

LayoutOps(sc) ==
    IF sc.kind = "scalar" THEN {} ELSE
    {<<[op |-> "repart", n |-> 2], sc>>}
    \cup (IF Focus = "general" /\ sc.nsrc = 1 THEN {<<[op |-> "parts", P |-> <<1>>], sc>>, <<[op |-> "parts", P |-> <<0>>], sc>>} ELSE {})
    \cup (IF sc.kind = "frame" THEN {<<[op |-> "shuffle", on |-> sc.cols[Len(sc.cols)]], [sc EXCEPT !.ord = FALSE]>>} ELSE {})

SelfBinOps(sc) ==
    IF sc.kind # "frame" \/ Len(sc.cols) < 2 THEN {} ELSE
    {<<[op |-> "colbin", f |-> "add", l |-> sc.cols[1], r |-> sc.cols[2]], [sc EXCEPT !.kind = "series", !.cols = <<>>, !.name = ""]>>}

Ops(sc) ==
    IF sc.kind = "frame" /\ Len(sc.cols) = 0 THEN {} ELSE
    CASE Focus = "filter"  -> FilterOps(sc) \cup ProjOps(sc) \cup RenameOps(sc) \cup ElemOps(sc) \cup MergeOps(sc) \cup SortOps(sc) \cup LayoutOps(sc) \cup AssignOps(sc) \cup ReduceOps(sc)
      [] Focus = "project" -> ProjOps(sc) \cup RenameOps(sc) \cup AssignOps(sc) \cup MergeOps(sc) \cup AsofOps(sc) \cup GroupOps(sc) \cup SortOps(sc) \cup ConcatOps(sc) \cup ElemOps(sc) \cup RowOps(sc) \cup FilterOps(sc) \cup ReduceOps(sc) \cup LayoutOps(sc)
      [] Focus = "partitioned" -> ReduceOps(sc) \cup GroupOps(sc) \cup MergeOps(sc) \cup AsofOps(sc) \cup ConcatOps(sc) \cup SortOps(sc) \cup RowOps(sc) \cup SelfBinOps(sc) \cup FilterOps(sc) \cup ElemOps(sc)
      [] Focus = "knobs" -> ReduceOps(sc) \cup GroupOps(sc) \cup MergeOps(sc) \cup SortOps(sc) \cup RowOps(sc) \cup LayoutOps(sc) \cup FilterOps(sc)
      [] OTHER -> ProjOps(sc) \cup FilterOps(sc) \cup AssignOps(sc) \cup RenameOps(sc) \cup ElemOps(sc) \cup ReduceOps(sc) \cup GroupOps(sc)
                  \cup MergeOps(sc) \cup AsofOps(sc) \cup ConcatOps(sc) \cup SortOps(sc) \cup RowOps(sc) \cup LayoutOps(sc) \cup SelfBinOps(sc)

(* the rows still carry the sorted integer index of the source table (what merge_asof on the index needs) *)
RECURSIVE SourceIndexed(_)
SourceIndexed(x) == x.op = "src" \/ (x.op \in {"filter", "elem", "proj", "drop", "assign", "rename", "dropna", "head", "addprefix", "addsuffix"} /\ SourceIndexed(x.c[1]))

VARIABLES q, sc, depth
vars == <<q, sc, depth>>

Init == q = Src("T1") /\ sc = SrcSchema("T1") /\ depth = 0
Apply == /\ depth < MaxOps
         /\ \E o \in Ops(sc) : /\ (o[1].op = "mergeasof" => SourceIndexed(q))
                               /\ q' = o[1] @@ [c |-> <<q>>]
                               /\ sc' = [o[2] EXCEPT !.ord = OrdDefined(q'), !.idx = IdxDefined(q')]
         /\ depth' = depth + 1
Next == Apply
Spec == Init /\ [][Next]_vars

(***************************************************************************)
(* Execution knobs (C10).  -1 stands for "not given" (the default), 0 for   *)
(* False; the harness passes every other value as the keyword argument.     *)
(***************************************************************************)
KnobGrid(kind) ==
    CASE kind = "reduce"  -> {[split_every |-> s] : s \in {-1, 0, 2, 3, 8}}
      [] kind = "groupby" -> {[split_every |-> s, split_out |-> o, shuffle_method |-> m] :
                                 s \in {-1, 2, 3}, o \in {-1, 1, 2, 3, 99}, m \in {"", "tasks", "disk"}}      \* 99: split_out=True
      [] kind = "merge"   -> {[broadcast |-> b, shuffle_method |-> m, npartitions |-> n] :
                                 b \in {-1, 0, 1, 50, 200}, m \in {"", "tasks", "disk"}, n \in {-1, 1, 3}}     \* 1: True, 50 / 200: bias 0.5 / 2.0
      [] kind = "sort"    -> {[npartitions |-> n, upsample |-> u, shuffle_method |-> m] :
                                 n \in {-1, 1, 2, 5}, u \in {-1, 50, 400}, m \in {"", "tasks", "disk"}}
      [] kind = "shuffle" -> {[shuffle_method |-> m, max_branch |-> b] : m \in {"tasks", "disk"}, b \in {-1, 2, 3, 8}}
      [] kind = "dedup"   -> {[split_every |-> s, split_out |-> o, shuffle_method |-> m] :
                                 s \in {-1, 2}, o \in {-1, 1, 2, 99}, m \in {"", "tasks", "disk"}}
      [] OTHER -> {}
KnobKinds == {"reduce", "groupby", "merge", "sort", "shuffle", "dedup"}
EmitKnobs(file) == ndJsonSerialize(file, SetToSeq(UNION {{[kind |-> k, knobs |-> g] : g \in KnobGrid(k)} : k \in KnobKinds}))

(***************************************************************************)
(* Partition layouts (C02): every way of cutting n rows into at most       *)
(* MaxCuts+1 consecutive partitions, empty partitions included: a layout   *)
(* is a non-decreasing sequence of cut positions in 0..n.                  *)
(***************************************************************************)
Layouts(n, maxcuts) == UNION {{s \in [1..m -> 0..n] : \A i \in 1..(m - 1) : s[i] <= s[i + 1]} : m \in 0..maxcuts}
EmitLayouts(file, n, maxcuts) == ndJsonSerialize(file, SetToSeq({[cuts |-> s] : s \in Layouts(n, maxcuts)}))

(* emitting: one line per reachable state *)
Emit == PrintT("CASE|" \o ToJson([q |-> q, sc |-> sc, depth |-> depth]))
=============================================================================

---------------------------- MODULE Repartition ----------------------------
(***************************************************************************)
(* C13 design-level model: the planners of RepartitionOps run as state     *)
(* machines for ALL (old divisions, new divisions, force) over DV and all  *)
(* (n_in, n_out) up to MaxN; the postconditions are evaluated on the       *)
(* universal dataset when a planner terminates.                            *)
(***************************************************************************)
EXTENDS RepartitionOps, Json

(***************************************************************************)
(* Design-level model: all (a, b, force) over DV, all (nin, nout) <= MaxN  *)
(***************************************************************************)
CONSTANTS DV,       \* values divisions may take
          IV,       \* values index labels may take (superset of DV: labels strictly between boundaries)
          MaxLen,   \* maximal length of a divisions vector
          MaxN      \* maximal partition count for the count based planners

(* divisions admitted by dask: strictly increasing, except that the last element may repeat *)
StrictSeqs(m) == {s \in [1..m -> DV] : \A x \in 1..(m - 1) : s[x] < s[x + 1]}
DivSeqs == UNION {StrictSeqs(m) : m \in 2..MaxLen}
           \cup UNION {{Append(s, s[m]) : s \in StrictSeqs(m)} : m \in 1..(MaxLen - 1)}
DivCases == {[kind |-> "div", a |-> ab[1], b |-> ab[2], force |-> f] : ab \in DivSeqs \X DivSeqs, f \in BOOLEAN}
LenPatterns(n) == {[p \in 1..n |-> (p * m + o) % 4] : m \in {0, 3}, o \in {1, 2}}
CountCases == {[kind |-> "count", nin |-> nn[1], nout |-> nn[2], lens |-> l] :
                    nn \in {x \in (1..MaxN) \X (1..MaxN) : x[1] # x[2]}, l \in UNION {LenPatterns(n) : n \in 1..MaxN}}
CountCasesOK == {c \in CountCases : Len(c.lens) = c.nin}

VARIABLES case, st, verdict
vars == <<case, st, verdict>>

Init == /\ case \in DivCases \cup CountCasesOK
        /\ st = IF case.kind = "div" THEN RDInit(case.a, case.b, case.force) ELSE [pc |-> "count"]
        /\ verdict = "running"

StepDiv == /\ case.kind = "div" /\ ~RDFinal(st) /\ verdict = "running"
           /\ st' = RDStep(st) /\ UNCHANGED <<case, verdict>>

FinishDiv == /\ case.kind = "div" /\ RDFinal(st) /\ verdict = "running"
             /\ verdict' = IF st.pc = "rejected" THEN "rejected"
                           ELSE DivVerdict(st.g, st.pc = "done", case.a, case.b, IV)
             /\ UNCHANGED <<case, st>>

FinishCount == /\ case.kind = "count" /\ verdict = "running"
               /\ verdict' = CountVerdict(IF case.nin > case.nout THEN FewerPlan(case.nin, case.nout)
                                          ELSE MorePlan(case.nin, case.nout),
                                          case.nin, case.nout, case.lens)
               /\ UNCHANGED <<case, st>>

Next == StepDiv \/ FinishDiv \/ FinishCount
Spec == Init /\ [][Next]_vars

(* properties of the DESIGN: checked by TLC; a failure here is a design-level finding that the *)
(* harness turns into a concrete case for the real code (it is reported, never silently accepted). *)
TypeOK == verdict \in {"running", "rejected", "ok", "PlannerCrash", "Closed", "Evaluates", "RowsPreserved", "Honoured", "Count"}
Rejects == (case.kind = "div" /\ verdict # "running") =>
              ((verdict = "rejected") <=> RangeError(case.a, case.b, case.force))
DesignOK == verdict \in {"running", "rejected", "ok"}
(* used with the Report configuration: print every design-level failure instead of stopping at the first *)
Report == (verdict \notin {"running", "rejected", "ok"}) =>
             PrintT("DESIGN|" \o verdict \o "|" \o ToJson(case))
(* case generation: the cases the harness replays against the real code are exactly the initial states *)
EmitCases(file) == ndJsonSerialize(file, SetToSeq(DivCases \cup CountCasesOK))
=============================================================================

import pandas as pd, numpy as np, dask_expr as dx
L = dx.from_pandas(pd.DataFrame({"k": [1, 2, 3, 4], "b": [5, -1, 5, -1]}), npartitions=2)
R = dx.from_pandas(pd.DataFrame({"k": [1, 2, 3, 9], "b": [-1, 7, 7, 7]}), npartitions=2)
q = L.merge(R, on="k", how="left", suffixes=("_l", ""))
got = q[q.b > 0].compute().sort_values("k").reset_index(drop=True)
exp = L.compute().merge(R.compute(), on="k", how="left", suffixes=("_l", ""))
exp = exp[exp.b > 0].sort_values("k").reset_index(drop=True)
print(got, exp, sep="\n")
pd.testing.assert_frame_equal(got, exp, check_dtype=False)

"""F67: sort_values -> column-vs-column filter -> AND filter -> combine_first -> column: optimize() raises AssertionError (Blockwise._divisions: operands with different divisions after the rewrite); the unoptimized lowering computes."""
import warnings; warnings.filterwarnings("ignore")
import pandas as pd, dask, dask_expr as dx
T1p = pd.DataFrame({'a': [None, 0.0, 3.0, 3.0, 1.0, None, None, 3.0, 0.0], 'b': [1.0, 0.0, 0.0, 0.0, None, 0.0, 1.0, 1.0, 2.0], 'k': [3.0, 1.0, 1.0, 2.0, 3.0, 0.0, 2.0, 2.0, 3.0]}, index=pd.Index([2, 12, 18, 19, 25, 30, 31, 32, 39], name='ix'))
T2p = pd.DataFrame({'k': [3.0, 1.0, 2.0, None, 0.0, 4.0, 2.0], 'b': [0.0, 1.0, 2.0, 1.0, 0.0, 0.0, 2.0], 'c': [1.0, 2.0, 2.0, 2.0, 0.0, 1.0, 1.0]}, index=pd.Index([3, 12, 23, 27, 30, 32, 35], name='ix'))
T1 = dx.from_pandas(T1p, npartitions=3); T2 = dx.from_pandas(T2p, npartitions=1)
s = T1.sort_values(["k", "a"]); s = s[s.a < s.b]; s = s[(s.a > 0) & (s.b <= 2)]
q = s.combine_first(T2)["a"]
low = q.expr.lower_completely(); print("unoptimized rows:", sum(len(p) for p in dask.get(low.__dask_graph__(), low.__dask_keys__())))
try:
    q.optimize()
except AssertionError as ex:
    print("F67 reproduces: AssertionError in optimize()")
else:
    raise SystemExit("F67 no longer reproduces")

"""F59 (C07): partitions of an axis-0 concat keep the index names of their inputs although the declared index name is None."""
import dask, pandas as pd, dask_expr as dx
a = dx.from_pandas(pd.DataFrame({"x": [1., 2]}, index=pd.Index([1, 2], name="k")), npartitions=1)
b = dx.from_pandas(pd.DataFrame({"x": [3., 4]}, index=pd.Index([3, 4], name="ix")), npartitions=1)
c = dx.concat([a, b])
names = [p.index.name for p in dask.compute(*c.to_delayed(), scheduler="sync")]
print("declared:", c._meta.index.name, "partitions:", names, "computed:", c.compute().index.name)
assert c._meta.index.name is None and names == ["k", "ix"], "F59 no longer reproduces"
print("F59 reproduces")

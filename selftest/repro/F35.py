import pandas as pd, numpy as np, dask_expr as dx
pdf = pd.DataFrame({"k": np.arange(40) % 3, "v": np.arange(40)})
df = dx.from_pandas(pdf, npartitions=8)
a = df.drop_duplicates(subset=["k"], split_out=2, shuffle_method="tasks").compute().sort_values("k").v.tolist()
bad = []
for i in range(5):
    b = df.drop_duplicates(subset=["k"], split_out=2, shuffle_method="disk").compute().sort_values("k").v.tolist()
    if a != b: bad.append(b)
print(a, bad); assert not bad

import os, tempfile, numpy as np, pandas as pd, dask_expr as dx
d = tempfile.mkdtemp()
pdf = pd.DataFrame({"a": np.arange(24.0), "b": np.arange(24) % 3, "u0": 1.0, "u1": 2.0})
for i in range(4):
    pdf.iloc[6 * i:6 * i + 6].to_parquet(os.path.join(d, f"part.{i}.parquet"))
x = dx.read_parquet(d)[["a", "b"]]
uncut = (x + 1).partitions[1].compute()
cut = (x + 1).persist(scheduler="sync").partitions[1].compute()
print(len(uncut), len(cut), x.npartitions, (x + 1).persist(scheduler="sync").npartitions)
assert len(uncut) == len(cut)

"""F68: partitions[[1]] -> assign -> filter -> right merge (suffixes ('_l','')) -> projection: optimize() works, computing the OPTIMIZED collection (which optimizes again) raises TypeError: can only concatenate tuple (not int) to tuple."""
import warnings; warnings.filterwarnings("ignore")
import pandas as pd, dask, dask_expr as dx
T1p = pd.DataFrame({'a': [None, 0.0, 3.0, 3.0, 1.0, None, None, 3.0, 0.0], 'b': [1.0, 0.0, 0.0, 0.0, None, 0.0, 1.0, 1.0, 2.0], 'k': [3.0, 1.0, 1.0, 2.0, 3.0, 0.0, 2.0, 2.0, 3.0]}, index=pd.Index([2, 12, 18, 19, 25, 30, 31, 32, 39], name='ix'))
T2p = pd.DataFrame({'k': [3.0, 1.0, 2.0, None, 0.0, 4.0, 2.0], 'b': [0.0, 1.0, 2.0, 1.0, 0.0, 0.0, 2.0], 'c': [1.0, 2.0, 2.0, 2.0, 0.0, 1.0, 1.0]}, index=pd.Index([3, 12, 23, 27, 30, 32, 35], name='ix'))
T1 = dx.from_pandas(T1p, npartitions=3); T2 = dx.from_pandas(T2p, npartitions=2)
x = T1.partitions[[1]]; x = x.assign(z=x.a + 1); x = x[x.a > 1]
q = x.merge(T2, on="k", how="right", suffixes=("_l", ""))[["c", "b"]]
print("compute():", len(q.compute()), "rows")
try:
    q.optimize().compute()
except TypeError as ex:
    print("F68 reproduces:", ex)
else:
    raise SystemExit("F68 no longer reproduces")

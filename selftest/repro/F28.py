import pandas as pd, dask_expr as dx
df = dx.from_pandas(pd.DataFrame({"a": [3, 1, 2, 5], "b": [1, 2, 3, 4]}), npartitions=2)
print(df.nlargest(2, "a")[["b"]].compute())
print(df.nlargest(2, "a")["a"].compute())

"""F56: len() of a doubly filtered left-semi merge cannot be optimized (AttributeError: 'RangeIndex' object has no attribute 'index')."""
import numpy as np, pandas as pd, dask_expr as dx
L = dx.from_pandas(pd.DataFrame({"k": [0., 1, 2, 0, 2, 1], "b": [0., 1, 2, 3, 1, 0]}), npartitions=2)
R = dx.from_pandas(pd.DataFrame({"k": [0., 2, 2], "c": [1., 2, 3]}), npartitions=2)
m = L.merge(R, on="k", how="leftsemi")
f = m[m.k.isin([0, 2])]
f = f[(f.b <= 2) & (f.k != 1)]
print("unoptimized lowering:", len(f.expr.lower_completely().__dask_graph__()) > 0)
try:
    print(len(f))
except AttributeError as ex:
    print("F56 reproduces:", ex)
else:
    raise SystemExit("F56 no longer reproduces")

import sys; sys.path.insert(0, "/verif/harness")
from vx import rel
tabs = rel.make_tables(2)
env = rel.dask_sources(tabs, {"T1": ("from_pandas", 3), "T2": ("from_pandas", 1)})
x = env["T1"].combine_first(env["T2"]).sort_values(["a"])
print(list(x.columns), list(x.compute().columns))
assert list(x.columns) == list(x.compute().columns)

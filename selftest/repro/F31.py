import pandas as pd, numpy as np, dask_expr as dx
A = dx.from_pandas(pd.DataFrame({"a": [1., 2, 0], "b": [0., 1, 2], "k": [1., 2, 3]}), npartitions=2)
B = dx.from_pandas(pd.DataFrame({"k": [1., 2], "b": [2., 2], "c": [0., 1]}), npartitions=1)
P, Q, R = A.a > 0, A.b <= 2, A.k != 1
print(dx.concat([A[(P & Q) | (P & R)], B]).compute())

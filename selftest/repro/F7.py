# F7 (C12/C11): staged task shuffle + partition subset raised KeyError before the fix.
import pandas as pd, dask_expr as dx
pdf = pd.DataFrame({"a": range(64), "b": 1})
df = dx.from_pandas(pdf, npartitions=16)
s = df.shuffle("a", shuffle_method="tasks", max_branch=2)
full = s.compute()
sub = s.partitions[[4, 5, 6]].compute()
assert len(sub) > 0 and set(sub.a) <= set(full.a)
print("ok", len(sub))

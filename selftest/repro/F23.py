# F23 (C02/C01): sort_values(ascending=False) over a concat whose first input has no value in the sort column
# returns the output partitions in ASCENDING order when the result keeps several partitions.
import sys; sys.path.insert(0, "/verif/harness")
import dask
from vx import rel
tabs = rel.make_tables(3)
env = rel.dask_sources(tabs, {"T1": ("from_pandas", 2), "T2": ("from_pandas", 1)})
import dask_expr as dx
x = dx.concat([env["T1"], env["T2"]], join="outer").sort_values(["c"], ascending=False)
parts = [p.c.dropna().tolist() for p in dask.compute(*x.to_delayed(), scheduler="sync")]
flat = [v for p in parts for v in p]
print(parts)
assert flat == sorted(flat, reverse=True), "not sorted descending across partitions"

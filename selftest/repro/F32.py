import pandas as pd, numpy as np, dask_expr as dx
pdf = pd.DataFrame({"k": [1., 1, np.nan, 2, np.nan], "a": [1., 2, 3, 4, 5]})
df = dx.from_pandas(pdf, npartitions=1)
got, exp = df.groupby("k").mean().compute(), pdf.groupby("k").mean()
print(got, exp, sep="\n")
assert len(got) == len(exp)

import pandas as pd, dask_expr as dx
df = dx.from_pandas(pd.DataFrame({"a": [1., 2, 0, 3], "k": [1., 2, 3, 1]}), npartitions=2)
print(df.cummax()[["k"]].compute())

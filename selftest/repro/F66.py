"""F66: concat -> OR-of-AND filter -> AND filter -> sum: the optimized plan aligns the mask and the frame through separate index shuffles and compute() raises IndexError (indices are out-of-bounds); the unoptimized lowering computes."""
import warnings; warnings.filterwarnings("ignore")
import pandas as pd, dask, dask_expr as dx
T1p = pd.DataFrame({'a': [0.0, None, 1.0, 2.0, 1.0, 1.0, 3.0, 2.0, 3.0], 'b': [0.0, 1.0, 1.0, 1.0, 2.0, 0.0, 0.0, 0.0, 2.0], 'k': [1.0, 3.0, 2.0, 2.0, 3.0, 3.0, 3.0, 1.0, 3.0]}, index=pd.Index([14, 22, 29, 31, 32, 35, 36, 37, 39], name='ix'))
T2p = pd.DataFrame({'k': [1.0, 4.0, 3.0, 4.0, 4.0, 4.0, 1.0], 'b': [1.0, 2.0, 1.0, 0.0, 0.0, 2.0, 2.0], 'c': [0.0, 1.0, 1.0, 0.0, 0.0, None, 1.0]}, index=pd.Index([1, 2, 4, 5, 7, 35, 39], name='ix'))
T1 = dx.from_pandas(T1p, npartitions=2); T2 = dx.from_pandas(T2p, npartitions=1)
c = dx.concat([T1, T2], join="inner")
f = c[(c.b.gt(0) & c.k.le(2)) | (c.b.gt(0) & c.k.ne(1))]        # comparison METHODS (with operators the plan differs and computes)
f = f[f.b.gt(0) & f.k.le(2)]
q = f.sum()
low = q.expr.lower_completely(); print("unoptimized:", dask.get(low.__dask_graph__(), low.__dask_keys__())[0].to_dict())
try:
    q.compute()
except IndexError as ex:
    print("F66 reproduces:", ex)
else:
    raise SystemExit("F66 no longer reproduces")

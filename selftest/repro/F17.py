# F17 (C13): single-value old range + forced extension with a repeated last division drops every row.
import pandas as pd, dask_expr as dx
pdf = pd.DataFrame({"x": [1, 2]}, index=[2, 2])
df = dx.from_pandas(pdf, npartitions=1)
out = df.repartition(divisions=(0, 1, 2, 2), force=True).compute()
print(len(out), "rows (expected 2)")
assert len(out) == 2

import pandas as pd, dask_expr as dx
class Loader:
    def __init__(self, frames): self.frames = frames
    def __call__(self, i): return self.frames[i]
    def __dask_tokenize__(self): return ("loader", len(self.frames))
pdf = pd.DataFrame({"a": range(6)})
mk = lambda: dx.from_map(Loader([pdf.iloc[:3], pdf.iloc[3:]]), [0, 1], meta=pdf.iloc[:0])
a, b = mk()._name, mk()._name
print(a, b, sep="\n"); assert a == b

import pandas as pd, numpy as np, dask_expr as dx
L = dx.from_pandas(pd.DataFrame({"k": np.arange(10) % 4, "a": range(10)}), npartitions=5)
R = dx.from_pandas(pd.DataFrame({"k": [0, 1, 2, 9], "c": range(4)}), npartitions=4)
exp = len(L.compute().merge(R.compute(), on="k", how="left"))
got = len(L.merge(R, on="k", how="left", broadcast=True, npartitions=3, shuffle_method="tasks").compute())
print(got, exp); assert got == exp

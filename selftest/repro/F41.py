# F41 (C19): optimizing an already optimized collection breaks a Fused group.
# The recorded C19 case, built with the same builder the check uses:
#   T1.merge(T2, on="k", how="inner") filtered by (c.ne(1) & a.gt(0)), T2 held in ONE partition.
# compute() works; optimize().compute() (compute optimizes again) raises AttributeError.
import sys; sys.path.insert(0, "/verif/harness")
from vx import rel
q = {"op": "filter", "c": [{"op": "merge", "c": [{"op": "src", "t": "T1"}], "on": ["k"], "other": "T2", "how": "inner", "suffixes": ["_x", "_y"]}],
     "pred": {"p": "and", "a": {"p": "cmp", "f": "ne", "col": "c", "v": 1}, "b": {"p": "cmp", "f": "gt", "col": "a", "v": 0}}}
tabs = rel.make_tables(0)
env = rel.dask_sources(tabs, {"T1": ("from_pandas", 3), "T2": ("from_pandas", 1)})
coll = rel.build(q, env, "dask")
print("compute():", len(coll.compute()), "rows")
try:
    coll.optimize().compute()
except AttributeError as ex:
    print("optimize().compute() raised AttributeError:", ex)
    raise SystemExit(1)
print("optimize().compute() succeeded")

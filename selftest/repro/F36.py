import sys; sys.path.insert(0, "/verif/harness")
from vx import rel
tabs = rel.make_tables(3, nrows=(18, 17))
env = rel.dask_sources(tabs, {"T1": ("from_pandas", 9), "T2": ("from_pandas", 2)})
x = env["T1"].shuffle("k").set_index("k", npartitions=2)
print(len(x.compute()))

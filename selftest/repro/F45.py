# F45 (C06): a broadcast join on a COLUMN reports the divisions of its non-broadcast input, although the joined
# partitions carry a fresh RangeIndex
import pandas as pd, numpy as np, dask, dask_expr as dx
a = dx.from_pandas(pd.DataFrame({"k": np.arange(12) % 4, "a": np.arange(12)}, index=pd.Index(np.arange(100, 112), name="ix")), npartitions=3)
b = dx.from_pandas(pd.DataFrame({"k": [0, 1, 2, 3], "c": [1, 2, 3, 4]}), npartitions=2)
m = a.merge(b, on="k", how="inner", broadcast=True, shuffle_method="tasks").optimize()
parts = dask.compute(*m.to_delayed(), scheduler="sync")
print("divisions:", m.divisions)
print("index ranges:", [(int(p.index.min()), int(p.index.max())) for p in parts if len(p)])
assert m.divisions[0] is None or all(m.divisions[i] <= p.index.min() for i, p in enumerate(parts) if len(p)), "reported divisions do not bound the partitions"

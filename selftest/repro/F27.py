# F27 (C02/C01): set_index when one input partition has no non-null key: computed divisions start above the minimum
import pandas as pd, numpy as np, dask_expr as dx
pdf = pd.DataFrame({"c": [np.nan, np.nan, 2., 2, 2, 3, 1, 1, 1, 0, 2, 3, 3], "v": range(13)})
pieces = [pdf.iloc[0:2], pdf.iloc[2:2], pdf.iloc[2:6], pdf.iloc[6:13]]     # partition 0: all-NULL key, partition 1: empty
df = dx.from_map(lambda i: pieces[i], [0, 1, 2, 3], meta=pdf.iloc[:0])
x = df.set_index("c")
out = x.map_partitions(lambda p: p).compute()
idx = [v for v in out.index.tolist() if v == v]
print(x.divisions, idx)
assert idx == sorted(idx), "set_index result is not sorted across partitions"

# F20 (C11): selection above a fused multi-file read counts fused buckets instead of logical partitions.
import tempfile, os, pandas as pd, numpy as np, dask_expr as dx
d = tempfile.mkdtemp()
pdf = pd.DataFrame({"k": np.arange(24) % 5, "v": np.arange(24), "rid": np.arange(24)})
for i in range(4):
    pdf.iloc[6 * i:6 * i + 6].to_parquet(os.path.join(d, f"part.{i}.parquet"))
x = dx.read_parquet(d)[["k", "v"]].cumsum()
assert x.npartitions == 4
got = x.partitions[1].compute()
print(got.v.tolist())
assert len(got) == 6, f"partition 1 of 4 should have 6 rows, got {len(got)}"

# F46, second shape: operators whose result depends on the partition layout (tail / head look at ONE partition, ffill refuses
# an all-NaN partition) over a column-projected multi-file parquet read. Uncut, the optimizer fuses the files (4 -> 2 partitions);
# a reader cut at the root is materialised unfused (4 partitions, what npartitions reported): the rest sees other partitions.
import os, tempfile, warnings, numpy as np, pandas as pd, dask_expr as dx
warnings.simplefilter("ignore")
d = tempfile.mkdtemp()
pdf = pd.DataFrame({"a": np.arange(8.0), "b": [1.0, 0, 0, 0, 1, 0, 0, 1], "u0": 1.0, "u1": 2.0, "u2": 3.0})
for i in range(4):
    pdf.iloc[2 * i:2 * i + 2].to_parquet(os.path.join(d, f"part.{i}.parquet"))
x = dx.read_parquet(d)[["a", "b"]]
uncut = x[x.b > 0].tail(2)
p = x.persist(scheduler="sync")
cut = p[p.b > 0].tail(2)
print("reported npartitions", x.npartitions, "persisted", p.npartitions, "as run", x[x.b > 0].optimize().npartitions)
print("uncut rows", list(uncut.index), "cut rows", list(cut.index))
assert list(uncut.index) == list(cut.index)

"""F69: right merge with a one-partition right input -> set_index -> set_index: compute() raises AttributeError 'tuple' object has no attribute 'set_index' (optimize().compute() works): the F41 family - a fused group is rebuilt with a new dependency while its member list still names the old one."""
import warnings; warnings.filterwarnings("ignore")
import pandas as pd, dask, dask_expr as dx
T1p = pd.DataFrame({'a': [0.0, 3.0, 0.0, None, 2.0, 0.0, 2.0, 1.0, 2.0], 'b': [0.0, 1.0, 0.0, 1.0, 2.0, 1.0, None, 2.0, 0.0], 'k': [3.0, 2.0, None, 2.0, 1.0, 2.0, 1.0, 2.0, 0.0]}, index=pd.Index([2, 5, 9, 17, 21, 29, 30, 33, 34], name='ix'))
T2p = pd.DataFrame({'k': [1.0, None, 3.0, 2.0, 4.0, 4.0, 2.0], 'b': [0.0, 1.0, 2.0, 0.0, 0.0, 0.0, 2.0], 'c': [None, 2.0, 2.0, None, 1.0, 3.0, 0.0]}, index=pd.Index([8, 12, 16, 18, 24, 28, 39], name='ix'))
T1 = dx.from_pandas(T1p, npartitions=2); T2 = dx.from_pandas(T2p, npartitions=1)
m = T1.merge(T2, on="k", how="right")
q = m.set_index("c").set_index("b_y")
print("optimize().compute():", len(q.optimize().compute()), "rows")
try:
    q.compute()
except AttributeError as ex:
    print("F69 reproduces:", ex)
else:
    raise SystemExit("F69 no longer reproduces")

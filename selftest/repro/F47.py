"""F47 (C16): the name of a persisted collection changes under pickling when its partitions are strided views."""
import pickle
import numpy as np, pandas as pd, dask_expr as dx
pdf = pd.DataFrame({"a": np.arange(9.0), "b": np.arange(9.0) * 2, "k": np.arange(9.0) % 3})
p = dx.from_pandas(pdf, npartitions=3).astype("float64").persist(scheduler="sync")
q = pickle.loads(pickle.dumps(p))
print(p._name, q._name)
assert p.compute().equals(q.compute())
assert p._name != q._name, "F47 no longer reproduces"
print("F47 reproduces: same data, different name")

# F34 (C02/C12): -0.0 and 0.0 are equal join keys for pandas but are hashed to different partitions
import pandas as pd, numpy as np, dask_expr as dx
L = pd.DataFrame({"k": [-0.0, 1.0, 2.0, -0.0, 3.0, 4.0], "a": range(6)})
R = pd.DataFrame({"k": [0.0, 1.0, 5.0, 0.0, 6.0, 7.0], "c": range(6)})
exp = L.merge(R, on="k")
bad = []
for n in (2, 3, 4, 5):
    got = dx.from_pandas(L, npartitions=3).merge(dx.from_pandas(R, npartitions=3), on="k", shuffle_method="tasks",
                                                broadcast=False, npartitions=n).compute()
    if len(got) != len(exp):
        bad.append((n, len(got), len(exp)))
print(bad)
assert not bad

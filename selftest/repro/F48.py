"""F48 (C18, known): an unnamed index written by to_parquet comes back named '__null_dask_index__' through the arrow reader."""
import tempfile
import numpy as np, pandas as pd, dask_expr as dx
d = tempfile.mkdtemp()
pdf = pd.DataFrame({"a": np.arange(6.0)}, index=pd.Index([1, 3, 5, 7, 9, 11]))
dx.from_pandas(pdf, npartitions=2).to_parquet(d)
a = dx.read_parquet(d, filesystem="arrow").compute()
f = dx.read_parquet(d, filesystem="fsspec").compute()
print("arrow:", a.index.name, " fsspec:", f.index.name)
assert f.index.name is None
assert a.index.name == "__null_dask_index__", "F48 no longer reproduces"
print("F48 reproduces")

# F33: set_index when (almost) no row has a non-null key at run time (from a C02 replay)
import sys; sys.path.insert(0, "/verif/harness")
from vx import rel
tabs = rel.make_tables(1, nrows=(6, 5))
env = rel.dask_sources(tabs, {"T1": ("cuts", [1, 3, 3], False), "T2": ("from_pandas", 2)})
t1 = env["T1"]
x = t1[t1.a < t1.b].set_index("k")       # keeps one row, whose key is NaN
print(x.compute())

# F33: set_index when no row has a non-null key at run time
import pandas as pd, numpy as np, dask_expr as dx
pdf = pd.DataFrame({"a": [0., 1, 3, 3], "k": [np.nan, 0., 0., 3.]})
pieces = [pdf.iloc[0:2], pdf.iloc[2:4]]
df = dx.from_map(lambda i: pieces[i], [0, 1], meta=pdf.iloc[:0])
print(df[df.a < 1].set_index("k").compute())        # keeps only the row whose key is NaN

import pandas as pd, dask_expr as dx
df = dx.from_pandas(pd.DataFrame({"a": [1., 2, 3, 4], "k": [4., 3, 2, 1]}), npartitions=2)
print(df[df.a > 100].set_index("k").compute())

import pandas as pd, numpy as np, dask_expr as dx
pdf = pd.DataFrame({"x": [1., 2, 2, 3, 4, 5], "y": [1., 5, 2, np.nan, 4, 0]})
lay = [pdf.iloc[0:3], pdf.iloc[3:4], pdf.iloc[4:6]]            # middle partition: y is all-NULL
df = dx.from_map(lambda i: lay[i], [0, 1, 2], meta=pdf.iloc[:0])
got, exp = df.cumsum().compute(), pdf.cumsum()
print(got.y.tolist(), exp.y.tolist())
assert got.y.tolist()[-1] == exp.y.tolist()[-1]
